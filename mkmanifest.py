#!/usr/bin/env python3
"""Regenerates /verif/MANIFEST.json from the table below (kept as a script so the file stays consistent)."""
import json, os

HERE = os.path.dirname(os.path.abspath(__file__))

NA = {
    "C02": "decode->encode->decode equality is a pure function of the input text: no schedule, fault, clock or shared-state history enters it (its I/O seams are crossed fault-free; their fault behaviour is C08/C09). Deciding it is input generation plus a field comparator, i.e. round-trip property testing, not simulation.",
    "C03": "same as C02 with edits as further inputs; the 'acknowledged write survives a crash' analogy is hollow because encode is synchronous and total: there is no un-synced state for a crash to lose.",
    "C04": "per-line acceptance of encoder output is a pure function of the map; nothing a scheduler or fault injector controls enters it.",
    "C07": "a differential between nine pure parsers on identical bytes; the only source of divergence is the code itself, so there is no schedule or fault sequence to search.",
    "C11": "per-record conversion rules against an independent table; pure function of the record.",
    "C14": "per-line grammar against an independent reference parser; pure function of the line.",
    "C15": "closed-form relations and a time-shift metamorphic relation on the decoded value; pure function of the input.",
    "C16": "numeric contract of the length adjustment; pure function of (points, length, mode).",
    "C17": "geometric accuracy of curve approximation; pure numerical analysis, no environment involved.",
    "C19": "position_at arc-length parametrisation; pure function of (curve, progress).",
}

# id -> (level category, technique, level text, level note, design ref)
CLAIMED = {
    "C01": ("exploration", "deterministic simulation with storage-fault injection: truncation sweep, bit flips, torn splices, lost blocks, invalid sequences, record faults; all nine decoders + re-encode; Miri re-execution of a plan sample in the thorough tier",
            "Exhaustive short prefixes (all byte strings <= 4 over a 12-byte structural alphabet, alone and before a small file) and first-line variants (special character x 10 first lines x special character); every truncation length of every small file (thorough: also of its UTF-16 transcodings); seeded storage faults (S1-S4, S6) and record faults (L1-L5) on bundled and grammar-generated files, encoding and Mode knobs, a share delivered under chunking/Interrupted, plus workload-only families counted separately: uniform and dictionary noise, hostile slider geometry (NaN/inf curve lengths, huge arcs, limit coordinates), pathological repetition (up to 4e5 copies of a line), records en masse (overlapping breaks, timing lines, objects), zigzag sliders with many repeats, foreign magic prefixes. Oracle: no panic, no process death, reader poll budget respected, every decoder returns Ok because the reader reported no failure, the Beatmap re-encodes to valid UTF-8 (two APIs agree; a short-writing interrupting sink receives the same text; a full fixed-size sink makes encode return an error, not hang) and decodes again. The thorough tier re-executes a sample of the same plans under Miri (UB check of the three unsafe blocks) and runs a second build with the tracing feature and a formatting subscriber.",
            "Sampling of the byte-string space by a seeded mutational generator: evidence, not proof. Allocation failure is not injectable (aborts); bounded by ulimit -v. Pure-compute hangs are caught by a wall-clock watchdog with re-confirmation.", "§4 C01"),
    "C05": ("exploration", "deterministic simulation: real driver and line reader over simulated delivery with stub section parsers; recorded delivery history checked against a reference router (exactly-once, in-order, right section)",
            "Every sequence of up to 2 (quick) / 3 (thorough) lines over a 77-kind alphabet in four encodings (exhaustive); seeded sequences (0..40 lines) over the same alphabet plus lines with characters whose UTF-16 units contain 0x0A/0x0D/0x00 bytes, byte damage and > 64 KiB lines, LF/CRLF, with/without final newline, four encodings, random simulated delivery (chunking, first chunk < 3, Interrupted, std BufReader capacities), plus every bundled file in four encodings. The (section, line) delivery history — recorded by stub parsers, or by one of the nine real decoders behind a pass-through probe (so decoder-specific skip hooks are exercised) — must equal the reference router's, and the version too. Entry points: decode over the simulated device, from_str, from_bytes, from_path on a regular file and on a pipe opened by path; for the full decoder also Beatmap's own entry points (value compared with from_bytes). Line kinds include CR-prefixed lines and LF-CR ends; UTF-16 storage cut anywhere or with a dangling byte. Second oracle with the REAL section decoders (nothing in between): the result for the file equals the result for the file reduced to the deliveries of the sections that decoder listens to. Re-entrant handlers: a stub whose callbacks start nested decodes every n-th line; nested results equal the top-level ones.",
            "Trusted: the ~60-line reference router written from the statement. Borderline applicability (quantified over inputs only) — claimed because the component is the stream-facing state machine whose line assembly spans chunk boundaries (DESIGN.md §2).", "§4 C05"),
    "C06": ("exploration", "deterministic simulation with record-fault injection: pass-through probe records each line's verdict; self-differential against the same file without the rejected line",
            "Bundled and generated files with 1..4 corrupted records (field deleted / swapped / boundary token / garbage / cut short / deep inside a multi-segment slider path / partial progress: an earlier field changed to another valid value and a later field broken) placed next to records of the same kind, plus noise and header-like lines and foreign section blocks spliced into sections; decoded through Probe<Beatmap|HitObjects|TimingPoints>; for up to 12 rejected lines per run the decode without that line must be bit-identical.",
            "Trusted: Debug fingerprint; the C05 router for mapping deliveries to file lines (sanity-checked per run). UTF-8 files only.", "§4 C06"),
    "C08": ("exploration", "deterministic simulation: seeded chunk/Interrupted schedules over a simulated BufRead device, self-differential against one-shot delivery; swept chunk sizes and BufReader capacities",
            "Seeded search over delivery schedules (chunk sizes down to 1 byte, first chunk < 3 bytes, boundary-targeted splits, Interrupted bursts, real std BufReader of capacity 1..16 and random over a simulated device, Chain, from_str, from_path on a real temp file, Beatmap's own from_bytes / str::parse / from_path; file names with other or no extensions and a beatmap folder with a neighbouring storyboard and difficulty) plus from_path over a pipe (procfs), over a pipe whose writer pauses, and over a path that previously held other bytes of the same length and mtime, for bundled and generated files in all four encodings and all nine decoders, about a fifth with unusual byte content (doubled BOM, BOM-less UTF-16, storage faults, foreign magic prefix, lines > 64 KiB / > 1 MiB, record faults incl. edge white space of the non-ASCII kind, orphan records before the first header, content that spells the path of an existing file, version-line spellings as first line, tiny files, uncompleted byte-order marks in front of header-first files); an advisory lock held by a second handle during from_path; thorough tier: files of 33 and 65 MiB whose content comes last; every result must equal from_bytes on the same bytes; a foreign decoder type that overrides should_skip_line must be handed the same history of lines under every delivery; rarely an Interrupted storm that lasts 0.7 s of real time; file names that are not valid UTF-8. Plus a deterministic sweep of fixed chunk sizes / capacities. Evidence, not proof: schedules are sampled.",
            "Trusted: std BufReader/Cursor/Chain, the Debug rendering used as fingerprint, the SimReader stub. A defect that alters one-shot and scheduled delivery identically is invisible to this oracle.", "§4 C08"),
    "C09": ("fault_enumeration", "deterministic simulation with fault injection: enumerated read/write fault offsets x error kinds through simulated reader/sink, plus seeded combinations",
            "Every byte offset of every small bundled file (dense samples of the four large ones) x the property's five error kinds (plus one of fifteen further kinds, rotating with the offset) x {direct, under std BufReader}, one-shot and sticky, mixed with Interrupted and chunking; every output offset x {hard error, Ok(0)} x {direct, by-value std BufWriter}; flush failure of every kind incl. Interrupted, sticky or on the first flush only (Ok is accepted only if the last flush the sink saw succeeded); short writes and Interrupted-only sinks; every input of <= 2 bytes x every Interrupted subset of the first four device calls; two synthetic full-featured maps in the corpus so every kind of output line meets every fault offset, and one tricky-text map stored as UTF-8+BOM / UTF-16LE / UTF-16BE so every byte of CR/LF-byte code units, surrogate pairs and multi-byte sequences meets a read fault; seven real-OS probes (through a scratch symlink, never the device node itself; incl. a zero-length special file whose reads fail). Oracle: injected failure => Err of that kind whose payload is still the device's error object (directly or along the source chain), transient => unchanged outcome, sink bytes always a prefix of the clean encoding, nothing swallowed (including in Drop), and after a faulted encode the same map encodes again to the clean text.",
            "Trusted: std BufReader/BufWriter, the SimReader/SimWriter stubs. ErrorKind and reachability of the injected payload are compared. Offsets of the four large files are sampled.", "§4 C09"),
    "C10": ("exploration", "deterministic simulation over the storage-encoding knob with invalid-sequence / truncation injection: self-differential across encodings and against std's lossy conversion; exhaustive single-scalar sweep",
            "All Unicode scalar values as metadata content in byte-neighbour contexts, as the last character of an unterminated line, before a dangling byte, and cut at every byte inside the character at the end of a UTF-8 file, in the four encodings (exhaustive over single scalars, both tiers); all texts <= 4 over {NUL, o, [, LF, CR, e-acute, U+4E0A, U+0D0A}; every sequence of <= 5 UTF-16 code units over {high, low, highest high, lowest low, a, LF} in LE and BE (the surrogate pairing grammar, enumerated); whole lines made only of characters whose code units are CR/LF/NUL bytes; lines longer than 64 KiB in only some of the encodings; texts beginning with U+FEFF (BOM-marked encodings only); bursts of 64..300 invalid bytes in one line; block-straddle lines of 5000 multi-unit characters at 8 offsets; bundled and generated texts in four encodings under one random delivery schedule; storage with injected invalid UTF-8 (incl. CESU-8 pairs, overlong forms, beyond U+10FFFF), lone surrogates, odd tails and UTF-16 truncation (every truncation length of every small file's transcodings in the thorough tier) compared with decoding the std lossy conversion of the payload.",
            "Trusted: std from_utf8_lossy / decode_utf16 as lossy reference; Debug fingerprint. Exhaustive only over single scalars, not strings.", "§4 C10"),
    "C12": ("exploration", "seeded search over timing-point line histories with reorder/duplicate/drop perturbations against an executable legacy reference model (sequential core of simulation testing; weak fit, no I/O fault applies)",
            "Every line sequence up to length 3 (quick) / 5 (thorough) over a 12-line alphabet x 4 modes, plus seeded histories (0..24 lines over the property's alphabet, optional fields omitted, comments) and the bundled maps' timing sections, each under reorder / duplicate / drop perturbations and [General] Mode switches or records of other sections or header look-alikes arriving between lines; near-equal times and values (±ulp, ±epsilon), padded flags, meters beyond i32, surplus fields, out-of-range defaults, integer fields at the edge of every 8/16/32/64-bit width (signed, unsigned, padded), Mode values that are not a mode, format versions >= 5; driven through the line API, decode::<TimingPoints>, decode::<Beatmap> and decode::<HitObjects>. The four lists must equal the legacy model bit for bit, be strictly increasing and clamped.",
            "Trusted: the ~200-line legacy model (field grammar, grouping, precedence, collection). Decision power comes from the model, not from fault injection (stated in DESIGN.md §2).", "§4 C12"),
    "C13": ("exploration", "seeded interleaving of logical clients' add operations on one shared collection, checked after every step against a reference sorted-list model and linear-scan lookups (weak fit)",
            "Every add sequence up to length 3 (quick) / 4 (thorough) over {4 kinds x 4 times x 2 values}, plus seeded histories (<= 32 ops) built from 1-3 client scripts interleaved by the scheduler, with fractional / negative / repeated / near-equal / huge / infinite times, NaN and infinite values, out-of-range volumes; one history in ten has 40..140 operations; one in 150 is a bulk history of 60..700 (rarely ~4100..4300) adds with unique values (ascending, descending, shuffled, front inserts, re-adds at stored times); NaN-time adds as a hostile operation with a narrow oracle; values one ulp beside their pool value; histories that start on a collection produced by the decoder; the same lookups before and after bursts of 2^8 / 2^16+-1 / 2^17 adds; lists filled beyond 2^16 points; the public ControlPoint trait used directly (redundancy query alone, insert-or-replace without it). After every add: lists equal the reference model and are strictly increasing; lookups at stored times, midpoints, before the first and beyond the last equal a linear scan with the documented fall-backs.",
            "Trusted: the reference collection model; 'active at its time' read narrowly. -0.0 and NaN times excluded.", "§4 C13"),
    "C18": ("exploration", "deterministic simulation of operation histories over shared long-lived buffers and caches (H1 abandoned borrow, H2 polluted/over-grown buffers); self-differential against fresh buffers",
            "Every sequence up to length 3 (quick) / 4 (thorough) of {owned, borrowed} computations over six fixed lists x two lengths, plus seeded histories (<= 24 ops) mixing owned / borrowed computations, SliderPath cache accessors, slider duration / end time with shared buffers, control-point and length mutations through the accessors and clear_curve, over pools including empty, single-point, degenerate identical-point, multi-segment and buffer-over-growing (> 100 point) lists, clone / clone_from between sliders, scripted fill-mutate-read triples, related lists (translated / mirrored / scaled copies), counter-wrap churn (one edit + up to 2^17 no-op mutable accesses between cache fill and read) thread hand-offs (operations on freshly spawned, joined threads), the buffer-less API used from a thread-local destructor during thread teardown, buffer clones and lookup histories (a warm owned curve answers idx_of_dist / position_at like a cold copy and like the borrowed view), whole Debug rendering of small curves equal to fresh; plus decoded maps where the decoder and the encoder are the clients of the shared buffers (cached curve == fresh, == same path recomputed after clear_curve), also after the map was edited through public fields (incl. its mode) and encoded with the caches kept. After every computing op the result must be bit-identical to Curve::new on fresh buffers for the current (mode, points, length).",
            "Self-differential: no geometric reference. Bit-exact comparison.", "§4 C18"),
    "C20": ("exploration", "deterministic simulation of iterator histories over one shared tick buffer (abandoned iterators, polluted buffer) checked against an eager reference event list and a fresh-buffer twin",
            "A grid (span counts 1..6 x 11 tick-distance ratios x 6 velocities x 5 lengths x 2 start times) on a polluted buffer, plus seeded histories of 1..8 ops {pollute, abandon after j events, run} with real-valued playable parameters, also scaled by powers of two down to 2^-220 and with tick distances down to 5e-324 where no tick fits. Plus the encoder as caller (control-point times it writes lie at map control-point times or inside an object's lifetime; velocity, node-sample and repeat-count edits before encoding; osu-vs-catch caller differential on node times; API-built maps with a distinct volume per slider node: after encode+decode the sample point active at each node's closed-form time carries that node's volume, and HitObjectSlider::duration() equals its closed form; a second encode after lengths were edited through the accessor; zero-length sliders; each node's volume still in force right before the next node). Each completed stream: the same through next / nth / skip / step_by / count / last with size_hint honoured, and through fold / for_each / collect / count / try_for_each / peekable after k calls of next(); structure exactly per the statement, first-tick existence decided exactly at the cut-off, closed-form times/progress within 1e-9 relative, chronological ticks, identical placement on every span, bit-identical to the stream from a fresh buffer, zero tick distance => no ticks but every repeat.",
            "Trusted: the eager reference (~100 lines) with a relative tolerance and tolerance-aware tick-count boundary. Parameters restricted to finite positive values and bounded tick counts.", "§4 C20"),
}

PENDING_REASON = "check not built yet in this commit (planned: claimed by DESIGN.md §0; will move to checks once its scenario exists)"
PENDING = []  # filled below with the ids that are designed as claimed but not yet implemented

ALL_CLAIMED_BY_DESIGN = ["C01", "C05", "C06", "C08", "C09", "C10", "C12", "C13", "C18", "C20"]

def main():
    checks = []
    for pid in ALL_CLAIMED_BY_DESIGN:
        if pid not in CLAIMED:
            PENDING.append(pid)
            continue
        cat, tech, text, note, ref = CLAIMED[pid]
        checks.append({
            "property_id": pid,
            "quick_cmd": f"./check {pid} quick",
            "thorough_cmd": f"./check {pid} thorough",
            "evidence_file": f"evidence/{pid}.json",
            "replay_cmd_template": "./check replay {path}",
            "engine": "rosu-sim",
            "level_claimed": {"category": cat, "text": text, "design_ref": ref},
            "level_note": note,
            "technique": tech,
        })
    na = [{"property_id": k, "reason": v} for k, v in sorted(NA.items())]
    na += [{"property_id": k, "reason": PENDING_REASON} for k in PENDING]
    na.sort(key=lambda x: x["property_id"])
    m = {
        "version": 1,
        "setup_cmd": "./check build",
        "hooks": {
            "guard": "maxohn_rosu_map_verif",
            "enable": "none needed: every seam used by the simulator is a public trait or function of rosu-map (DecodeBeatmap::decode<R: BufRead>, Beatmap::encode<W: Write>, the DecodeBeatmap trait itself, the section/collection/curve/event APIs); the guard name is reserved and unused",
            "baseline_off_cmd": "cd /repo && cargo test --workspace --no-fail-fast --offline",
            "source_commits": [],
            "add_only": True,
        },
        "engines": [{
            "name": "rosu-sim",
            "path": "sim/",
            "serves_properties": [c["property_id"] for c in checks],
            "kind_free_text": "zero-dependency Rust deterministic simulator: one PRNG (VERIF_SEED) plans every workload, delivery schedule and fault; plans execute against real rosu-map code through simulated BufRead/Write devices and shared long-lived objects; self-differential and reference-model oracles; greedy minimisation; replay files are explicit plans",
        }],
        "checks": checks,
        "not_applicable": na,
        "notes": "Technique family: deterministic simulation with fault injection. rosu-map has no threads, clock, network or async; the simulated environment is the BufRead/Write seam, storage corruption of bytes at rest, and operation histories over long-lived shared objects. See DESIGN.md §2 for the applicability rule. Exit codes: 0 held / 1 VIOLATION / 2 harness error.",
    }
    with open(os.path.join(HERE, "MANIFEST.json"), "w") as f:
        json.dump(m, f, indent=1, ensure_ascii=False)
        f.write("\n")

if __name__ == "__main__":
    main()
