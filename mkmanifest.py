#!/usr/bin/env python3
"""Regenerates /verif/MANIFEST.json from the table below (kept as a script so the file stays consistent)."""
import json, os

HERE = os.path.dirname(os.path.abspath(__file__))

NA = {
    "C02": "decode->encode->decode equality is a pure function of the input text: no schedule, fault, clock or shared-state history enters it (its I/O seams are crossed fault-free; their fault behaviour is C08/C09). Deciding it is input generation plus a field comparator, i.e. round-trip property testing, not simulation.",
    "C03": "same as C02 with edits as further inputs; the 'acknowledged write survives a crash' analogy is hollow because encode is synchronous and total: there is no un-synced state for a crash to lose.",
    "C04": "per-line acceptance of encoder output is a pure function of the map; nothing a scheduler or fault injector controls enters it.",
    "C07": "a differential between nine pure parsers on identical bytes; the only source of divergence is the code itself, so there is no schedule or fault sequence to search.",
    "C11": "per-record conversion rules against an independent table; pure function of the record.",
    "C14": "per-line grammar against an independent reference parser; pure function of the line.",
    "C15": "closed-form relations and a time-shift metamorphic relation on the decoded value; pure function of the input.",
    "C16": "numeric contract of the length adjustment; pure function of (points, length, mode).",
    "C17": "geometric accuracy of curve approximation; pure numerical analysis, no environment involved.",
    "C19": "position_at arc-length parametrisation; pure function of (curve, progress).",
}

# id -> (level category, technique, level text, level note, design ref)
CLAIMED = {
    "C08": ("exploration", "deterministic simulation: seeded chunk/Interrupted schedules over a simulated BufRead device, self-differential against one-shot delivery; swept chunk sizes and BufReader capacities",
            "Seeded search over delivery schedules (chunk sizes down to 1 byte, first chunk < 3 bytes, boundary-targeted splits, Interrupted bursts, real std BufReader of capacity 1..16 and random over a simulated device, Chain, from_str, from_path on a real temp file) for bundled and generated files in all four encodings and all nine decoders; every result must equal from_bytes on the same bytes. Plus a deterministic sweep of fixed chunk sizes / capacities. Evidence, not proof: schedules are sampled.",
            "Trusted: std BufReader/Cursor/Chain, the Debug rendering used as fingerprint, the SimReader stub. A defect that alters one-shot and scheduled delivery identically is invisible to this oracle.", "§4 C08"),
    "C09": ("fault_enumeration", "deterministic simulation with fault injection: enumerated read/write fault offsets x error kinds through simulated reader/sink, plus seeded combinations",
            "Every byte offset of every small bundled file (dense samples of the four large ones) x five error kinds x {direct, under std BufReader}, one-shot and sticky, mixed with Interrupted and chunking; every output offset x {hard error, Ok(0)} x {direct, by-value std BufWriter}; flush failure; short writes and Interrupted-only sinks; five real-OS probes. Oracle: injected failure => Err of that kind, transient => unchanged outcome, sink bytes always a prefix of the clean encoding, nothing swallowed (including in Drop).",
            "Trusted: std BufReader/BufWriter, the SimReader/SimWriter stubs. Only the ErrorKind is compared. Offsets of the four large files are sampled.", "§4 C09"),
}

PENDING_REASON = "check not built yet in this commit (planned: claimed by DESIGN.md §0; will move to checks once its scenario exists)"
PENDING = []  # filled below with the ids that are designed as claimed but not yet implemented

ALL_CLAIMED_BY_DESIGN = ["C01", "C05", "C06", "C08", "C09", "C10", "C12", "C13", "C18", "C20"]

def main():
    checks = []
    for pid in ALL_CLAIMED_BY_DESIGN:
        if pid not in CLAIMED:
            PENDING.append(pid)
            continue
        cat, tech, text, note, ref = CLAIMED[pid]
        checks.append({
            "property_id": pid,
            "quick_cmd": f"./check {pid} quick",
            "thorough_cmd": f"./check {pid} thorough",
            "evidence_file": f"evidence/{pid}.json",
            "replay_cmd_template": "./check replay {path}",
            "engine": "rosu-sim",
            "level_claimed": {"category": cat, "text": text, "design_ref": ref},
            "level_note": note,
            "technique": tech,
        })
    na = [{"property_id": k, "reason": v} for k, v in sorted(NA.items())]
    na += [{"property_id": k, "reason": PENDING_REASON} for k in PENDING]
    na.sort(key=lambda x: x["property_id"])
    m = {
        "version": 1,
        "setup_cmd": "./check build",
        "hooks": {
            "guard": "maxohn_rosu_map_verif",
            "enable": "none needed: every seam used by the simulator is a public trait or function of rosu-map (DecodeBeatmap::decode<R: BufRead>, Beatmap::encode<W: Write>, the DecodeBeatmap trait itself, the section/collection/curve/event APIs); the guard name is reserved and unused",
            "baseline_off_cmd": "cd /repo && cargo test --workspace --no-fail-fast --offline",
            "source_commits": [],
            "add_only": True,
        },
        "engines": [{
            "name": "rosu-sim",
            "path": "sim/",
            "serves_properties": [c["property_id"] for c in checks],
            "kind_free_text": "zero-dependency Rust deterministic simulator: one PRNG (VERIF_SEED) plans every workload, delivery schedule and fault; plans execute against real rosu-map code through simulated BufRead/Write devices and shared long-lived objects; self-differential and reference-model oracles; greedy minimisation; replay files are explicit plans",
        }],
        "checks": checks,
        "not_applicable": na,
        "notes": "Technique family: deterministic simulation with fault injection. rosu-map has no threads, clock, network or async; the simulated environment is the BufRead/Write seam, storage corruption of bytes at rest, and operation histories over long-lived shared objects. See DESIGN.md §2 for the applicability rule. Exit codes: 0 held / 1 VIOLATION / 2 harness error.",
    }
    with open(os.path.join(HERE, "MANIFEST.json"), "w") as f:
        json.dump(m, f, indent=1, ensure_ascii=False)
        f.write("\n")

if __name__ == "__main__":
    main()
