#!/bin/sh
# Silence proof: run every claimed property's check over many VERIF_SEED values on the current tree; any exit != 0
# is printed as ALARM. usage: seedsweep.sh <first-seed> <count> [tier] [ids…]
cd "$(dirname "$0")" || exit 2
VERIF_DIR="$(pwd)"; export VERIF_DIR
first=${1:-1}; count=${2:-100}; tier=${3:-quick}; shift 3 2>/dev/null
ids="${*:-C01 C05 C06 C08 C09 C10 C12 C13 C18 C20}"
./check build || exit 2
alarms=0; runs=0
s=$first
while [ $s -lt $((first+count)) ]; do
    for id in $ids; do
        VERIF_SEED=$s ./sim/target/release/rosu-sim check $id $tier >"sim/target/sweep-$id.log" 2>&1; rc=$?
        runs=$((runs+1))
        if [ $rc -ne 0 ]; then alarms=$((alarms+1)); echo "ALARM seed=$s property=$id exit=$rc"; grep -A3 "^VIOLATION\|HARNESS" "sim/target/sweep-$id.log" | head -12; fi
    done
    [ $((s % 10)) -eq 0 ] && echo "progress: seed $s done, $runs check runs, $alarms alarms"
    s=$((s+1))
done
echo "SEEDSWEEP-DONE first=$first count=$count tier=$tier runs=$runs alarms=$alarms"
[ $alarms -eq 0 ]
