//! The simulation engine: seeded plan generation, multi-threaded execution with per-block digests (the result is
//! independent of the worker count), panic capture, watchdog, minimisation, replay files, evidence.

use crate::json::{self, J};
use crate::plan::Plan;
use crate::rng::Fnv;
use std::cell::RefCell;
use std::collections::{BTreeMap, HashSet};
use std::panic::{catch_unwind, AssertUnwindSafe};
use std::sync::atomic::{AtomicBool, AtomicU64, Ordering};
use std::sync::Mutex;
use std::time::Instant;

#[derive(Clone, Copy, PartialEq, Eq, Debug)]
pub enum Tier {
    Quick,
    Thorough,
}
impl Tier {
    pub fn name(self) -> &'static str {
        match self {
            Tier::Quick => "quick",
            Tier::Thorough => "thorough",
        }
    }
    pub fn parse(s: &str) -> Option<Tier> {
        match s {
            "quick" => Some(Tier::Quick),
            "thorough" => Some(Tier::Thorough),
            _ => None,
        }
    }
}

#[derive(Clone, Debug)]
pub struct Violation {
    /// `<property>/<oracle>` — minimisation preserves this
    pub class: String,
    /// finer signature used only to match entries of known_findings.json
    pub sig: String,
    pub detail: String,
}
impl Violation {
    pub fn new(class: &str, sig: &str, detail: impl Into<String>) -> Violation {
        Violation { class: class.to_string(), sig: sig.to_string(), detail: detail.into() }
    }
}

#[derive(Default, Clone)]
pub struct Stats {
    pub c: BTreeMap<&'static str, u64>,
    /// outcome hash of the current run (fingerprint of what the system produced), folded into the digest
    pub outcome: u64,
}
impl Stats {
    #[inline]
    pub fn inc(&mut self, k: &'static str) {
        *self.c.entry(k).or_insert(0) += 1;
    }
    #[inline]
    pub fn add(&mut self, k: &'static str, n: u64) {
        if n > 0 {
            *self.c.entry(k).or_insert(0) += n;
        }
    }
    pub fn merge(&mut self, o: &Stats) {
        for (k, v) in &o.c {
            *self.c.entry(k).or_insert(0) += v;
        }
    }
    pub fn get(&self, k: &str) -> u64 {
        self.c.iter().find(|(kk, _)| **kk == k).map_or(0, |(_, v)| *v)
    }
}

pub trait Scenario: Sync + Send {
    fn id(&self) -> &'static str;
    fn level(&self) -> &'static str;
    fn rule(&self) -> String;
    fn assumptions(&self) -> Vec<String>;
    /// which components ran real code, which a stub
    fn components(&self) -> J;
    fn total_runs(&self, tier: Tier) -> u64;
    /// The ONLY place where the PRNG is consulted.
    fn plan(&self, seed: u64, idx: u64, tier: Tier) -> Plan;
    /// Pure function of the plan and the code under test.
    fn execute(&self, plan: &Plan, st: &mut Stats) -> Result<(), Violation>;
    fn nontrivial(&self, plan: &Plan) -> bool;
    fn shrink_candidates<'a>(&'a self, plan: &'a Plan) -> Box<dyn Iterator<Item = Plan> + 'a> {
        crate::shrink::generic_candidates(plan)
    }
    /// counters that a thorough run is expected to make non-zero (reach probes)
    fn reach_probes(&self) -> Vec<&'static str> {
        vec![]
    }
    /// counters that are "simulated steps"
    fn step_counters(&self) -> Vec<&'static str> {
        vec!["steps.reader_polls", "steps.bytes_delivered", "steps.writer_calls", "steps.ops_applied", "steps.device_calls"]
    }
}

/// Static names for "operation a directly followed by operation b" reach counters (op-pair coverage).
pub struct PairTable {
    pub ops: &'static [&'static str],
    names: std::sync::OnceLock<Vec<&'static str>>,
}
impl PairTable {
    pub const fn new(ops: &'static [&'static str]) -> Self {
        PairTable { ops, names: std::sync::OnceLock::new() }
    }
    pub fn idx(&self, op: &str) -> Option<usize> {
        self.ops.iter().position(|o| *o == op)
    }
    pub fn name(&self, a: usize, b: usize) -> &'static str {
        let n = self.ops.len();
        self.names.get_or_init(|| (0..n * n).map(|i| &*Box::leak(format!("pair.{}>{}", self.ops[i / n], self.ops[i % n]).into_boxed_str())).collect())[a * n + b]
    }
}

// ------------------------------------------------------------------------------------------------ panic capture

thread_local! {
    static LAST_PANIC: RefCell<Option<(String, String)>> = const { RefCell::new(None) };
}

pub fn install_panic_hook() {
    std::panic::set_hook(Box::new(|info| {
        let msg = info.payload().downcast_ref::<String>().cloned().or_else(|| info.payload().downcast_ref::<&str>().map(|s| (*s).to_string())).unwrap_or_else(|| "<non-string panic>".into());
        let loc = info.location().map(|l| format!("{}:{}:{}", l.file(), l.line(), l.column())).unwrap_or_default();
        LAST_PANIC.with(|p| *p.borrow_mut() = Some((msg, loc)));
    }));
}

/// Run `f` on a freshly spawned thread and wait for it (a sequential hand-off: no scheduling decision is involved, but
/// thread-local state of the code under test starts from scratch there). A panic over there is re-raised here with its
/// recorded location.
pub fn on_fresh_thread<T: Send>(f: impl FnOnce() -> T + Send) -> T {
    let r = std::thread::scope(|s| {
        s.spawn(|| match catch_unwind(AssertUnwindSafe(f)) {
            Ok(v) => Ok(v),
            Err(p) => Err((p, LAST_PANIC.with(|l| l.borrow_mut().take()))),
        })
        .join()
    });
    match r {
        Ok(Ok(v)) => v,
        Ok(Err((p, info))) => {
            LAST_PANIC.with(|l| *l.borrow_mut() = info);
            std::panic::resume_unwind(p)
        }
        Err(p) => std::panic::resume_unwind(p),
    }
}

pub enum RunResult {
    Ok,
    Violation(Violation),
    /// a panic raised by the harness's own code: never a verdict
    HarnessError(String),
}

/// Execute one plan with panic capture. A panic whose location is inside the simulator's own sources is a
/// harness error (exit 2); any other panic (rosu-map, or std called by rosu-map) is a violation `<id>/panic`.
pub fn run_one(sc: &dyn Scenario, plan: &Plan, st: &mut Stats) -> RunResult {
    LAST_PANIC.with(|p| *p.borrow_mut() = None);
    match catch_unwind(AssertUnwindSafe(|| sc.execute(plan, st))) {
        Ok(Ok(())) => RunResult::Ok,
        Ok(Err(v)) => RunResult::Violation(v),
        Err(_) => {
            let (msg, loc) = LAST_PANIC.with(|p| p.borrow_mut().take()).unwrap_or_default();
            if loc.contains("sim/src/") && !loc.contains("/repo/") {
                RunResult::HarnessError(format!("harness panic at {loc}: {msg}"))
            } else {
                let sig = format!("panic@{}", loc.rsplit("/src/").next().unwrap_or(&loc));
                RunResult::Violation(Violation::new(&format!("{}/panic", sc.id()), &sig, format!("panic at {loc}: {msg}")))
            }
        }
    }
}

// ------------------------------------------------------------------------------------------------ batch

pub const BLOCK: u64 = 256;

pub struct Batch {
    pub evaluations: u64,
    pub stats: Stats,
    pub distinct_nontrivial: u64,
    pub distinct_plans: u64,
    pub digest: u64,
    pub violations: Vec<(u64, Violation, Plan)>,
    pub violation_count: u64,
    pub harness_errors: Vec<String>,
    pub samples: Vec<J>,
    pub slowest: (u64, f64),
    pub wall_s: f64,
}

struct ThreadOut {
    stats: Stats,
    hashes_nt: HashSet<u64>,
    hashes_all: HashSet<u64>,
    blocks: Vec<(u64, u64)>,
    viol: BTreeMap<String, Vec<(u64, Violation, Plan)>>,
    viol_count: u64,
    herr: Vec<String>,
    evals: u64,
    slowest: (u64, f64),
    samples: BTreeMap<String, J>,
}

pub struct Watch {
    pub slots: Vec<(AtomicU64, AtomicU64)>, // (idx+1, start ms since t0)
    pub t0: Instant,
    pub done: AtomicBool,
}

pub fn hang_limit_ms() -> u64 {
    std::env::var("VERIF_HANG_MS").ok().and_then(|s| s.parse().ok()).unwrap_or(300_000)
}

/// Run plans `from..to` on `threads` workers. Blocks of 256 indexes are handed out dynamically; each block's
/// digest is computed in index order inside the block and block digests are combined in block order, so the
/// batch digest does not depend on the number of workers or on which worker ran which block.
pub fn run_batch(sc: &dyn Scenario, seed: u64, tier: Tier, threads: usize, from: u64, to: u64, markers: Option<&std::fs::File>) -> Batch {
    let t0 = Instant::now();
    let next = AtomicU64::new(from / BLOCK);
    let last_block = if to == 0 { 0 } else { (to - 1) / BLOCK };
    let stop = AtomicBool::new(false);
    let watch = Watch { slots: (0..threads).map(|_| (AtomicU64::new(0), AtomicU64::new(0))).collect(), t0, done: AtomicBool::new(false) };
    let outs: Mutex<Vec<ThreadOut>> = Mutex::new(Vec::new());
    let limit = hang_limit_ms();

    std::thread::scope(|s| {
        // watchdog: the only consumer of wall-clock time, and never an oracle for runs that finish
        s.spawn(|| {
            while !watch.done.load(Ordering::Relaxed) {
                std::thread::sleep(std::time::Duration::from_millis(200));
                let now = watch.t0.elapsed().as_millis() as u64;
                for (i, sl) in watch.slots.iter().enumerate() {
                    let idx1 = sl.0.load(Ordering::Relaxed);
                    let st = sl.1.load(Ordering::Relaxed);
                    if idx1 != 0 && now.saturating_sub(st) > limit {
                        let idx = idx1 - 1;
                        let plan = sc.plan(seed, idx, tier);
                        let path = replay_path(sc.id(), seed, idx, "hang");
                        let _ = write_replay(&path, &plan, &Violation::new(&format!("{}/hang", sc.id()), "hang", format!("run exceeded {limit} ms on worker {i}")));
                        println!("HANG-SUSPECT property={} idx={} replay={}", sc.id(), idx, path);
                        std::process::exit(3);
                    }
                }
            }
        });
        let mut handles = Vec::new();
        for ti in 0..threads {
            let (next, stop, watch, outs) = (&next, &stop, &watch, &outs);
            handles.push(s.spawn(move || {
                let mut o = ThreadOut {
                    stats: Stats::default(),
                    hashes_nt: HashSet::new(),
                    hashes_all: HashSet::new(),
                    blocks: Vec::new(),
                    viol: BTreeMap::new(),
                    viol_count: 0,
                    herr: Vec::new(),
                    evals: 0,
                    slowest: (0, 0.0),
                    samples: BTreeMap::new(),
                };
                loop {
                    if stop.load(Ordering::Relaxed) {
                        break;
                    }
                    let b = next.fetch_add(1, Ordering::Relaxed);
                    if b > last_block || to == 0 {
                        break;
                    }
                    let lo = (b * BLOCK).max(from);
                    let hi = ((b + 1) * BLOCK).min(to);
                    let mut dg = Fnv::new();
                    for idx in lo..hi {
                        let plan = sc.plan(seed, idx, tier);
                        let h = plan.hash();
                        watch.slots[ti].1.store(watch.t0.elapsed().as_millis() as u64, Ordering::Relaxed);
                        watch.slots[ti].0.store(idx + 1, Ordering::Relaxed);
                        if let Some(f) = markers {
                            use std::os::unix::fs::FileExt;
                            let _ = f.write_at(&(idx + 1).to_le_bytes(), (ti * 8) as u64);
                        }
                        let t = Instant::now();
                        o.stats.outcome = 0;
                        let r = run_one(sc, &plan, &mut o.stats);
                        let dt = t.elapsed().as_secs_f64();
                        watch.slots[ti].0.store(0, Ordering::Relaxed);
                        if dt > o.slowest.1 {
                            o.slowest = (idx, dt);
                        }
                        o.evals += 1;
                        o.hashes_all.insert(h);
                        if sc.nontrivial(&plan) {
                            o.hashes_nt.insert(h);
                        }
                        dg.u64(h);
                        dg.u64(o.stats.outcome);
                        if !o.samples.contains_key(&plan.scen) && o.samples.len() < 12 {
                            o.samples.insert(plan.scen.clone(), sample_json(&plan));
                        }
                        match r {
                            RunResult::Ok => dg.u64(0),
                            RunResult::Violation(v) => {
                                dg.str(&v.class);
                                o.viol_count += 1;
                                let e = o.viol.entry(v.class.clone()).or_default();
                                e.push((idx, v, plan));
                                e.sort_by_key(|x| x.0);
                                e.truncate(3);
                                if o.viol_count > 20_000 {
                                    stop.store(true, Ordering::Relaxed);
                                }
                            }
                            RunResult::HarnessError(m) => {
                                dg.u64(2);
                                if o.herr.len() < 5 {
                                    o.herr.push(format!("run {idx}: {m}"));
                                }
                                stop.store(true, Ordering::Relaxed);
                            }
                        }
                    }
                    o.blocks.push((b, dg.finish()));
                }
                outs.lock().unwrap().push(o);
            }));
        }
        for h in handles {
            let _ = h.join();
        }
        watch.done.store(true, Ordering::Relaxed);
    });

    let outs = outs.into_inner().unwrap();
    let mut stats = Stats::default();
    let mut nt: HashSet<u64> = HashSet::new();
    let mut all: HashSet<u64> = HashSet::new();
    let mut blocks = Vec::new();
    let mut viol: BTreeMap<String, Vec<(u64, Violation, Plan)>> = BTreeMap::new();
    let mut herr = Vec::new();
    let (mut evals, mut vc) = (0, 0);
    let mut slowest = (0, 0.0);
    let mut samples: BTreeMap<String, J> = BTreeMap::new();
    for o in outs {
        stats.merge(&o.stats);
        nt.extend(o.hashes_nt);
        all.extend(o.hashes_all);
        blocks.extend(o.blocks);
        for (k, v) in o.viol {
            viol.entry(k).or_default().extend(v);
        }
        herr.extend(o.herr);
        evals += o.evals;
        vc += o.viol_count;
        if o.slowest.1 > slowest.1 {
            slowest = o.slowest;
        }
        for (k, v) in o.samples {
            samples.entry(k).or_insert(v);
        }
    }
    blocks.sort();
    let mut dg = Fnv::new();
    for (b, d) in &blocks {
        dg.u64(*b);
        dg.u64(*d);
    }
    let mut violations = Vec::new();
    for (_, mut v) in viol {
        v.sort_by_key(|x| x.0);
        v.truncate(3);
        violations.extend(v);
    }
    violations.sort_by_key(|x| x.0);
    Batch {
        evaluations: evals,
        stats,
        distinct_nontrivial: nt.len() as u64,
        distinct_plans: all.len() as u64,
        digest: dg.finish(),
        violations,
        violation_count: vc,
        harness_errors: herr,
        samples: samples.into_values().collect(),
        slowest,
        wall_s: t0.elapsed().as_secs_f64(),
    }
}

fn sample_json(p: &Plan) -> J {
    // a compact, readable rendering of an actual explored case
    let mut o = J::obj();
    o.set("scenario", J::str(&*p.scen));
    o.set("idx", J::Int(p.idx as i64));
    let mut knobs = J::obj();
    for (k, v) in &p.p {
        knobs.set(k, J::Int(*v));
    }
    o.set("knobs", knobs);
    if !p.data.is_empty() {
        o.set("data_len", J::Int(p.data.len() as i64));
        o.set("data_head", J::str(String::from_utf8_lossy(&p.data[..p.data.len().min(96)]).into_owned()));
    }
    if !p.sched.is_empty() {
        o.set("chunk_schedule", J::Arr(p.sched.iter().take(16).map(|x| J::Int(i64::from(*x))).collect()));
    }
    if !p.eintr.is_empty() {
        o.set("interrupted_at_device_calls", J::Arr(p.eintr.iter().take(16).map(|x| J::Int(i64::from(*x))).collect()));
    }
    if !p.lines.is_empty() {
        o.set("lines", J::Arr(p.lines.iter().take(12).map(|l| J::str(&**l)).collect()));
    }
    if !p.ops.is_empty() {
        o.set("ops", J::Arr(p.ops.iter().take(12).map(|op| J::str(format!("{}{:?}", op.k, op.a))).collect()));
    }
    if !p.faults.is_empty() {
        o.set("faults_planned", J::Arr(p.faults.iter().map(|l| J::str(&**l)).collect()));
    }
    o
}

// ------------------------------------------------------------------------------------------------ replay files

pub fn verif_dir() -> String {
    std::env::var("VERIF_DIR").unwrap_or_else(|_| ".".to_string())
}

pub fn replay_path(id: &str, seed: u64, idx: u64, tag: &str) -> String {
    format!("{}/replays/{}-{}-{}-{}.json", verif_dir(), id, seed, idx, tag)
}

pub fn write_replay(path: &str, plan: &Plan, v: &Violation) -> Result<(), String> {
    if let Some(dir) = std::path::Path::new(path).parent() {
        std::fs::create_dir_all(dir).map_err(|e| e.to_string())?;
    }
    let mut j = plan.to_json();
    j.set("violation_class", J::str(&*v.class));
    j.set("violation_signature", J::str(&*v.sig));
    j.set("violation_detail", J::str(&*v.detail));
    std::fs::write(path, j.to_string_pretty()).map_err(|e| format!("{path}: {e}"))
}

pub fn load_replay(path: &str) -> Result<(Plan, Option<String>), String> {
    let s = std::fs::read_to_string(path).map_err(|e| format!("{path}: {e}"))?;
    let j = json::parse(&s)?;
    let p = Plan::from_json(&j)?;
    Ok((p, j.get("violation_class").and_then(J::as_str).map(str::to_string)))
}

// ------------------------------------------------------------------------------------------------ minimisation

/// Greedy minimisation: repeatedly take the first candidate that still yields the same violation class.
pub fn minimise(sc: &dyn Scenario, plan: Plan, v: Violation) -> (Plan, Violation, u64) {
    let t0 = Instant::now();
    let (mut cur, mut curv) = (plan, v);
    let mut execs = 0u64;
    let budget_execs = 4000u64;
    loop {
        if execs >= budget_execs || t0.elapsed().as_secs() > 40 {
            break;
        }
        let mut found = None;
        for c in sc.shrink_candidates(&cur) {
            if execs >= budget_execs || t0.elapsed().as_secs() > 40 {
                break;
            }
            if c == cur {
                continue;
            }
            execs += 1;
            let mut st = Stats::default();
            if let RunResult::Violation(v2) = run_one(sc, &c, &mut st) {
                if v2.class == curv.class {
                    found = Some((c, v2));
                    break;
                }
            }
        }
        match found {
            Some((c, v2)) => {
                cur = c;
                curv = v2;
            }
            None => break,
        }
    }
    (cur, curv, execs)
}

// ------------------------------------------------------------------------------------------------ known findings

#[derive(Clone, Debug)]
pub struct Known {
    pub property: String,
    pub signature: String,
    pub status: String,
    pub what: String,
}

pub fn load_known() -> Result<Vec<Known>, String> {
    let path = format!("{}/known_findings.json", verif_dir());
    let Ok(s) = std::fs::read_to_string(&path) else { return Ok(vec![]) };
    let j = json::parse(&s).map_err(|e| format!("{path}: {e}"))?;
    let mut out = Vec::new();
    for f in j.get("findings").and_then(J::as_arr).unwrap_or(&[]) {
        let g = |k: &str| f.get(k).and_then(J::as_str).unwrap_or("").to_string();
        out.push(Known { property: g("property"), signature: g("signature"), status: g("status"), what: g("what") });
    }
    Ok(out)
}
