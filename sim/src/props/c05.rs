//! C05 — file framing: which lines reach which section parser.
//! Real driver + real line reader + real BOM sniffer, stub parsers (`Rec`); the recorded delivery history must
//! equal the reference router's: same lines, same order, same section, none missing, none duplicated, same version.

use crate::corpus::{encode_text, file_text, Corpus, ENCS};
use crate::engine::{Scenario, Stats, Tier, Violation};
use crate::json::J;
use crate::models::router::{route, Routed};
use crate::plan::Plan;
use crate::probe::Rec;
use crate::rng::{Fnv, Rng};
use crate::simio::SimReader;
use crate::transport::{note_read_stats, plan_transport, DevRef, T_BUFREADER, T_SIM};
use rosu_map::DecodeBeatmap;
use std::io::BufReader;
use std::sync::Arc;

pub struct C05 {
    pub corpus: Arc<Corpus>,
}

/// The property's line-kind alphabet.
pub const KINDS: &[&str] = &[
    "", "   ", "\t", "// c", "  // c", "\t//c", "//", "osu file format v14", "osu file format v9", "osu file format v3", "osu file format v128", "osu file format vX", "osu file format v14 // c", "osu file format v",
    "osu file format v2147483648", "osu file format v-5", "osu file format v 7 ", " osu file format v14", "osu file format", "[General]", "[Editor]", "[Metadata]", "[Difficulty]", "[Events]", "[TimingPoints]", "[Colours]",
    "[HitObjects]", "[Variables]", "[CatchTheBeat]", "[Mania]", "[Unknown]", "[Colors]", "[general]", " [General]", "[General] // x", "[General]x", "[]", "[General", "General]", "[[General]]", "[ General ]", "Mode: 1",
    "Title:a // b", "Title: Re:Zero", "0,0,\"bg.png\",0,0", "10,500,4,1,0,100,1,0", "Combo1: 1,2,3", "256,192,100,1,0,0:0:0:0:", "garbage", "a:b:c", "100,100,200,2,0,B|1:1|2:2,1,50", "x\ry", "\u{3000}", "Title:\u{4e00}x",
    "Title:é", "Artist:\u{1F600} tail", "BeatDivisor: x", "HPDrainRate:NaN", "-1,-1,-1", "2,100,50", "[HitObjects]\t", "[Events]   ", "//[General]", "$var=1", "Mania: 4K", "[Metadata)", "[General}", "[HitObjects1", "(General]", "[General]]", "{General}", "[TimingPoints>", " Mode: 3", "_indented", " 256,192,100,1,0",
    "Title:x // y", "Artist:AC//DC", "\u{3000}// c", "\u{b}//c", "\u{a0}// c", "\u{2003}//", "\u{feff}osu file format v9", "\u{feff}", "\u{feff}[General]", "\0", "\0[General]", "\0osu file format v9",
    "Creator:me\u{1a}", "\u{1a}", "osu file format v9\u{1a}", "[Metadata]\u{1a}", "Title:t\u{7f}", "\u{c}// ff",
    // a CR in front (what "LF CR" line ends leave at the start of the next line)
    "\r[Events]", "\rosu file format v9", "\r", "\r// c", "\rTitle:x", "\r\r[General]",
    // records that disagree with an earlier kind at the same time / for the same key (whatever sits between them —
    // a header, a comment, a blank line — must not decide which one wins)
    "10,400,4,2,0,50,1,1", "10,-50,4,2,0,60,0,0", "Mode: 3", "Title:other", "Combo1: 9,9,9", "OSU FILE FORMAT V9", "osu File Format v9",
    // bracketed names a tool or a later format might use: none of them is a section
    "osu file format v-2147483648", "osu file format v-2147483647", "osu file format v2147483647",
    "[Fonts]", "[Storyboard]", "[Skin]", "[Scores]", "[TimingPoint]", "[Timing Points]", "[Objects]", "[Editor ]", "[Info]",
];

/// Characters whose UTF-16 code units contain the byte 0x0A (or 0x0D): framing must not be confused by them.
pub const TRICKY: &[&str] = &["Title:x\u{4E0A}", "Tags:\u{0A05}", "Artist:\u{0100}\u{0A00}y", "// c \u{4E00}\u{0A4D}ode:3", "Source:\u{0A0A}", "Title:a\u{4E0A}b", "Tags:\u{010A}\u{0A0A} x", "Artist:\u{0A00}", "Source:\u{0D0A}\u{0A0D}", "Title:\u{FEFF}x", "Version:\u{200A}"];

fn enum_maxlen(tier: Tier) -> u32 {
    match tier {
        Tier::Quick => 2,
        Tier::Thorough => 3,
    }
}
fn enum_count(tier: Tier) -> u64 {
    (0..=enum_maxlen(tier)).map(|l| (KINDS.len() as u64).pow(l)).sum::<u64>() * 4
}

impl Scenario for C05 {
    fn id(&self) -> &'static str {
        "C05"
    }
    fn level(&self) -> &'static str {
        "exploration"
    }
    fn rule(&self) -> String {
        "(1) Exhaustive: every sequence of up to 2 (quick) / 3 (thorough) lines over the 65-kind alphabet, in each of the four encodings, one-shot delivery. (2) Files are seeded sequences (length 0..40) over the property's line-kind alphabet (blank, whitespace-only, comments, version lines good/bad/suffixed/prefix-only, the 11 headers, unknown/indented/suffixed/bracket-only headers, valid and invalid records, lines with characters whose UTF-16 code units contain byte 0x0A/0x0D), LF or CRLF terminators, with or without final newline, in all four encodings, delivered through a random simulated transport (chunk schedules, first chunk < 3, Interrupted, std BufReader capacities); plus every bundled file in four encodings. The recorded (section, line) delivery history and the version given to State::create must equal the reference router's. Also: from_path entry points (regular file, pipe by path); for the seven one- or two-section decoders the real decoder's result for the file must equal its result for the file reduced to those sections' deliveries; a re-entrant stub recorder starts nested decodes from inside its callbacks. Round 8: CR-prefixed lines, LF-CR ends, UTF-16 storage cut anywhere / dangling byte, Beatmap's own entry points compared with from_bytes. Round 10: plausible non-section names ([Fonts], [Storyboard], ...). Round 11: version numbers at the i32 edges; 1e4..2e5 leading blank lines. distinct_nontrivial = distinct plan hashes with at least 2 lines.".into()
    }
    fn assumptions(&self) -> Vec<String> {
        vec![
            "the ~60-line reference router (sim/src/models/router.rs) is the trusted base; it was written from the statement and validated on the tree".into(),
            "version lines with several 'v' after the prefix are outside the alphabet (the statement does not fix their meaning)".into(),
            "half of the runs use stub section parsers (Rec); the other half run one of the nine real decoders behind the pass-through Probe<D>, so a decoder-specific should_skip_line override is exercised; what the parsers do with a line is C06/C11/C12/C14".into(),
        ]
    }
    fn components(&self) -> J {
        J::obj()
            .with("real", J::Arr(vec![J::str("DecodeBeatmap::decode driver loop, parse_version, parse_first_section, parse_section"), J::str("reader::Decoder (BOM sniff, read_line, transcoding)"), J::str("Section::try_from_line, format_version")]))
            .with("stub", J::Arr(vec![J::str("all eleven parse_* handlers (Rec records section+line)"), J::str("byte source SimReader")]))
    }
    fn total_runs(&self, tier: Tier) -> u64 {
        self.corpus.files.len() as u64 * 4
            + enum_count(tier)
            + match tier {
                Tier::Quick => 150_000,
                Tier::Thorough => 12_000_000,
            }
    }
    fn plan(&self, seed: u64, idx: u64, tier: Tier) -> Plan {
        let nb = self.corpus.files.len() as u64 * 4;
        let ne = enum_count(tier);
        let mut rng = Rng::for_run(seed, "C05", idx);
        if idx >= nb && idx < nb + ne {
            // exhaustive: every sequence of line kinds up to the bounded length, in each of the four encodings
            let mut k = (idx - nb) / 4;
            let e = ((idx - nb) % 4) as usize;
            let a = KINDS.len() as u64;
            let mut len = 0u32;
            loop {
                let c = a.pow(len);
                if k < c {
                    break;
                }
                k -= c;
                len += 1;
            }
            let mut s = String::new();
            for _ in 0..len {
                s.push_str(KINDS[(k % a) as usize]);
                s.push('\n');
                k /= a;
            }
            let mut p = Plan::new("C05", "enumerated", seed, idx);
            p.data = encode_text(&s, ENCS[e]);
            p.set("enc", e as i64);
            p.set("dec", ((idx - nb) / 4 % 10) as i64);
            // one-shot delivery for the enumerated part (delivery is varied in the seeded part)
            return p;
        }
        if idx < nb {
            let f = (idx / 4) as usize;
            let mut p = Plan::new("C05", "bundled", seed, idx);
            p.data = encode_text(&file_text(&self.corpus.files[f].1), ENCS[(idx % 4) as usize]);
            p.set("enc", (idx % 4) as i64);
            p.note = self.corpus.files[f].0.clone();
            p.set("dec", (idx % 10) as i64);
            plan_transport(&mut rng, &mut p, true);
            return p;
        }
        let mut p = Plan::new("C05", "alphabet", seed, idx);
        let len = if rng.chance(1, 8) { rng.below(4) } else { rng.below(41) };
        let mut s = String::new();
        let crlf_file = rng.chance(1, 4);
        for i in 0..len {
            let l = if rng.chance(1, 12) { *rng.pick(TRICKY) } else { *rng.pick(KINDS) };
            s.push_str(l);
            if i + 1 < len || rng.chance(2, 3) {
                s.push_str(if crlf_file || rng.chance(1, 10) { "\r\n" } else if rng.chance(1, 40) { "\n\r" } else { "\n" });
            }
        }
        if rng.chance(1, 80) {
            // a line longer than 64 KiB (whose tail would read as a header if the line were split)
            let n = 65_530 + rng.below(40);
            let long = format!("Tags:{}[Difficulty]", "x".repeat(n.saturating_sub(17)));
            let at = s.find('\n').map_or(0, |i| i + 1);
            s.insert_str(at, &format!("{long}\n"));
        }
        if rng.chance(1, 400) {
            // tens of thousands of blank lines in front of everything (blank lines never change the outcome, however many)
            let n = *rng.pick(&[10_000usize, 50_000, 200_000]);
            let blank = *rng.pick(&["\n", "\r\n", "  \n", "\t\n"]);
            s.insert_str(0, &blank.repeat(n));
            p.faults.push("workload-many-leading-blank-lines".into());
        }
        let e = rng.below(4);
        p.data = encode_text(&s, ENCS[e]);
        if e < 2 && rng.chance(1, 12) {
            // byte-level damage in UTF-8 storage: invalid bytes inside a line, or a character cut off at the very end
            match rng.below(3) {
                0 => {
                    while p.data.last().map_or(false, |b| *b == b'\n' || *b == b'\r') {
                        p.data.pop();
                    }
                    p.data.extend_from_slice(*rng.pick(&[&[0xE3u8, 0x81][..], &[0xF0, 0x9F], &[0xC3], &[0x20, 0xE2, 0x82]]));
                }
                1 => {
                    let at = rng.below(p.data.len() + 1);
                    p.data.insert(at, *rng.pick(&[0xFFu8, 0x80, 0xC0, 0xFE]));
                }
                _ => {
                    let at = rng.below(p.data.len() + 1);
                    let seq: &[u8] = *rng.pick(&[&[0xE3u8, 0x81][..], &[0xED, 0xA0, 0x80], &[0xF0, 0x9F, 0x98]]);
                    p.data.splice(at..at, seq.iter().copied());
                }
            }
            p.faults.push("S6-invalid-utf8".into());
        } else if e >= 2 && rng.chance(1, 12) {
            // byte-level damage in UTF-16 storage: cut anywhere (also in the middle of a code unit), or a dangling byte
            // after the last complete unit
            if rng.chance(1, 2) && p.data.len() > 2 {
                let keep = 2 + rng.below(p.data.len() - 1);
                p.data.truncate(keep);
                p.faults.push("S1-truncate-utf16".into());
            } else if rng.chance(1, 2) {
                p.data.push(*rng.pick(&[0x0Au8, 0x00, 0x0D, 0x5B, 0xD8, 0xFF]));
                p.faults.push("S1-dangling-byte-utf16".into());
            } else {
                // a stray surrogate code unit at a unit-aligned place: right after the BOM, right after or before a line
                // feed, or anywhere (inside a header, in front of a comment marker, ...)
                let le = e == 2;
                let units = (p.data.len() - 2) / 2;
                let lf: Vec<usize> = (0..units).filter(|&u| {
                    let (a, b) = (p.data[2 + 2 * u], p.data[3 + 2 * u]);
                    if le { a == 0x0A && b == 0 } else { a == 0 && b == 0x0A }
                }).collect();
                let at_unit = match rng.below(4) {
                    0 => 0,
                    1 if !lf.is_empty() => *rng.pick(&lf) + 1,
                    2 if !lf.is_empty() => *rng.pick(&lf),
                    _ => rng.below(units + 1),
                };
                let u: u16 = *rng.pick(&[0xDC00u16, 0xDFFF, 0xD800, 0xDBFF, 0xDE00]);
                let b = if le { u.to_le_bytes() } else { u.to_be_bytes() };
                let at = 2 + 2 * at_unit.min(units);
                p.data.splice(at..at, b);
                p.faults.push("S6-stray-surrogate-utf16".into());
            }
        }
        p.set("enc", e as i64);
        p.set("dec", if rng.chance(1, 2) { 0 } else { 1 + rng.below(9) as i64 });
        plan_transport(&mut rng, &mut p, true);
        if rng.chance(1, 8) {
            // the other entry points: from_str (for the UTF-8 flavours), from_bytes, from_path on a regular file and on
            // a pipe opened by path (a "file" whose metadata reports length 0)
            p.set("t", *rng.pick(&[crate::transport::T_FROM_STR, crate::transport::T_FROM_BYTES, crate::transport::T_FROM_STR, crate::transport::T_FROM_BYTES, crate::transport::T_FROM_PATH, crate::transport::T_FROM_PATH_PIPE]));
            p.sched.clear();
            p.eintr.clear();
        }
        if rng.chance(1, 10) {
            // handlers that decode something else while they are being called (the stub recorder only)
            p.set("nest", 1 + rng.below(7) as i64);
        }
        p
    }
    fn execute(&self, plan: &Plan, st: &mut Stats) -> Result<(), Violation> {
        let data = &plan.data[..];
        let tail = plan.get("tail").max(0) as usize;
        let mut dev = SimReader::new(data, &plan.sched, tail, &plan.eintr, None).record_boundaries();
        let which = plan.get("dec").rem_euclid(10);
        st.inc(if which == 0 { "handlers.stub-recorder" } else { "handlers.real-decoder-behind-probe" });
        use crate::transport::{T_FROM_BYTES, T_FROM_PATH, T_FROM_PATH_PIPE, T_FROM_STR};
        let nest = plan.get("nest");
        let real = if which == 0 && nest > 0 {
            st.inc("handlers.reentrant-recorder");
            nested::run(data, nest, &plan.sched, tail, &plan.eintr)
        } else if [T_FROM_STR, T_FROM_BYTES, T_FROM_PATH, T_FROM_PATH_PIPE].contains(&plan.get("t")) {
            st.inc(crate::transport::transport_name(plan.get("t")));
            entry_point(which, data, plan.get("t"), plan.idx, st)
        } else if plan.get("t") == T_BUFREADER {
            st.inc(crate::transport::transport_name(T_BUFREADER));
            st.inc("fired.R6-std-BufReader-composition");
            deliveries(which, BufReader::with_capacity(plan.get_or("cap", 8).max(1) as usize, DevRef(&mut dev)))
        } else {
            st.inc(crate::transport::transport_name(T_SIM));
            deliveries(which, &mut dev)
        };
        note_read_stats(st, data, &dev.st);
        if dev.st.budget_exceeded {
            return Err(Violation::new("C05/livelock", "poll-budget", format!("{} polls for {} bytes", dev.st.polls, data.len())));
        }
        let model = route(data);
        st.add("steps.lines_delivered", model.log.len() as u64);
        let real = match real {
            Ok(r) => r,
            Err(e) => return Err(Violation::new("C05/decode-error", &format!("err-{:?}", e.kind()), format!("decode returned Err({e}) although the reader reported no failure"))),
        };
        let mut h = Fnv::new();
        for (s, l) in &real.log {
            h.str(s);
            h.str(l);
        }
        st.outcome = h.finish() ^ real.version as u64;
        compare(&real, &model, data)?;
        if which == 1 && [T_FROM_STR, T_FROM_BYTES, T_FROM_PATH, T_FROM_PATH_PIPE].contains(&plan.get("t")) {
            // the full decoder also has entry points of its own (Beatmap::from_bytes, str::parse, Beatmap::from_path): a
            // foreign handler cannot ride along there, so the value they return is compared with the generic entry point
            use crate::probe::{from_bytes_fp, Dec};
            let mut q = plan.clone();
            q.set("inherent", 1);
            let via = crate::transport::decode_via(&q, Dec::Beatmap, st);
            let want = from_bytes_fp(Dec::Beatmap, data).map_err(|e| e.kind());
            if via.out != want {
                return Err(Violation::new("C05/entry-points-disagree", "inherent", format!("Beatmap's own entry point ({}) gives {:?}, rosu_map::from_bytes::<Beatmap> gives {want:?} for the same bytes", crate::transport::transport_name(plan.get("t")), via.out)));
            }
        }
        regroup_check(which, data, &model, st)
    }
    fn nontrivial(&self, plan: &Plan) -> bool {
        plan.data.iter().filter(|b| **b == b'\n').count() >= 2
    }
    fn reach_probes(&self) -> Vec<&'static str> {
        vec!["fired.R1-chunking(runs-with>=2-chunks)", "fired.R2-first-chunk-lt3", "fired.R3-interrupted", "fired.R6-std-BufReader-composition", "probe.boundary-between-CR-and-LF", "probe.boundary-between-LE-LF-and-its-00", "probe.boundary-inside-BOM"]
    }
}

/// Delivery history through the stub recorder (0) or through one of the nine real decoders behind the pass-through
/// probe (1..=9) — the latter also exercises any `should_skip_line` override of that decoder.
fn deliveries<R: std::io::BufRead>(which: i64, r: R) -> std::io::Result<Rec> {
    use crate::probe::Probe;
    use rosu_map::section::{colors::Colors, difficulty::Difficulty, editor::Editor, events::Events, general::General, hit_objects::HitObjects, metadata::Metadata, timing_points::TimingPoints};
    fn conv<D: DecodeBeatmap>(p: Probe<D>) -> Rec {
        Rec { version: p.version, log: p.log.into_iter().map(|(s, l, _)| (s, l)).collect() }
    }
    Ok(match which {
        1 => conv(Probe::<rosu_map::Beatmap>::decode(r)?),
        2 => conv(Probe::<General>::decode(r)?),
        3 => conv(Probe::<Editor>::decode(r)?),
        4 => conv(Probe::<Metadata>::decode(r)?),
        5 => conv(Probe::<Difficulty>::decode(r)?),
        6 => conv(Probe::<Events>::decode(r)?),
        7 => conv(Probe::<Colors>::decode(r)?),
        8 => conv(Probe::<TimingPoints>::decode(r)?),
        9 => conv(Probe::<HitObjects>::decode(r)?),
        _ => Rec::decode(r)?,
    })
}

/// What a decoder returns is fixed by which lines reach which of its parsers: a decoder that only listens to some
/// sections must return the same value for the file and for the file reduced to the deliveries of those sections (in
/// delivery order, headers re-emitted on every switch, explicit version line) — the REAL decoder, no probe in between,
/// so that anything the driver decides per decoder type is included.
fn regroup_check(which: i64, data: &[u8], model: &Routed, st: &mut Stats) -> Result<(), Violation> {
    use crate::probe::{from_bytes_fp, Dec};
    let (dec, listens): (Dec, &[&str]) = match which {
        2 => (Dec::General, &["General"]),
        3 => (Dec::Editor, &["Editor"]),
        4 => (Dec::Metadata, &["Metadata"]),
        5 => (Dec::Difficulty, &["Difficulty"]),
        6 => (Dec::Events, &["Events"]),
        7 => (Dec::Colors, &["Colours"]),
        8 => (Dec::TimingPoints, &["General", "TimingPoints"]),
        _ => return Ok(()),
    };
    let mut text = format!("osu file format v{}\n", model.version);
    let mut cur = "";
    let mut kept = Vec::new();
    for (sec, line, _) in &model.log {
        if !listens.contains(sec) {
            continue;
        }
        if *sec != cur {
            text.push_str(&format!("[{sec}]\n"));
            cur = sec;
        }
        text.push_str(line);
        text.push('\n');
        kept.push((*sec, line.clone()));
    }
    // precondition (reference router only): the reduced text delivers exactly the kept lines
    let again = crate::models::router::route_text(&text);
    if again.version != model.version || again.log.len() != kept.len() || again.log.iter().zip(&kept).any(|(a, b)| a.0 != b.0 || a.1 != b.1) {
        st.inc("probe.regroup-not-expressible");
        return Ok(());
    }
    st.inc("ops.regroup-differential");
    let a = from_bytes_fp(dec, data).map_err(|e| e.kind());
    let b = from_bytes_fp(dec, text.as_bytes()).map_err(|e| e.kind());
    if a != b {
        return Err(Violation::new(
            "C05/result-not-determined-by-deliveries",
            dec.name(),
            format!("decode::<{}> of the file gives {a:?}; of the same deliveries for sections {listens:?} written out as a plain file it gives {b:?}\n reduced file: {text:?}", dec.name()),
        ));
    }
    Ok(())
}

/// Handlers that themselves decode: a stub recorder whose parse callbacks run a nested decode (of a fixed small text,
/// through from_str / from_bytes / decode on a simulated reader) every `nest`-th delivered line. The nested result must
/// be what the same call gives at top level, and the outer delivery history must still equal the reference router's.
mod nested {
    use crate::probe::{section_name, Never, Rec};
    use crate::simio::SimReader;
    use rosu_map::section::Section;
    use rosu_map::{DecodeBeatmap, DecodeState};
    use std::cell::Cell;

    pub const INNER: &str = "osu file format v9\n\n[Metadata]\nTitle: inner // c\n[Difficulty]\nCircleSize: 4.5\n[Metadata]\nCreator:me\n";
    thread_local! {
        static EVERY: Cell<i64> = const { Cell::new(0) };
        static BAD: Cell<u32> = const { Cell::new(0) };
        static WANT: std::cell::RefCell<[String; 3]> = const { std::cell::RefCell::new([String::new(), String::new(), String::new()]) };
    }
    pub struct NRec(Rec);
    pub struct NState {
        rec: Rec,
        n: i64,
    }
    impl DecodeState for NState {
        fn create(version: i32) -> Self {
            NState { rec: Rec { version, log: vec![] }, n: 0 }
        }
    }
    impl From<NState> for NRec {
        fn from(s: NState) -> Self {
            NRec(s.rec)
        }
    }
    /// one nested decode, rendered; at top level (before the outer decode starts) this gives the expected rendering
    fn inner(k: i64) -> String {
        match k.rem_euclid(3) {
            0 => format!("{:?}", rosu_map::from_str::<rosu_map::section::metadata::Metadata>(INNER).map_err(|e| e.kind())),
            1 => format!("{:?}", rosu_map::from_bytes::<Rec>(INNER.as_bytes()).map_err(|e| e.kind())),
            _ => {
                let mut dev = SimReader::new(INNER.as_bytes(), &[3, 1, 7], 0, &[1, 4], None);
                format!("{:?}", rosu_map::section::difficulty::Difficulty::decode(&mut dev).map_err(|e| e.kind()))
            }
        }
    }
    fn inner_ok(k: i64) -> bool {
        let got = inner(k);
        WANT.with(|w| w.borrow()[k.rem_euclid(3) as usize] == got)
    }
    macro_rules! nrec {
        ($($f:ident => $s:ident),*) => { $(
            fn $f(state: &mut NState, line: &str) -> Result<(), Never> {
                state.rec.log.push((section_name(Section::$s), line.to_owned()));
                state.n += 1;
                let every = EVERY.with(|e| e.get());
                if every > 0 && state.n % every == 0 && !inner_ok(state.n / every) {
                    BAD.with(|b| b.set(b.get() + 1));
                }
                Ok(())
            }
        )* }
    }
    impl DecodeBeatmap for NRec {
        type Error = Never;
        type State = NState;
        nrec!(parse_general => General, parse_editor => Editor, parse_metadata => Metadata, parse_difficulty => Difficulty, parse_events => Events,
             parse_timing_points => TimingPoints, parse_colors => Colors, parse_hit_objects => HitObjects, parse_variables => Variables,
             parse_catch_the_beat => CatchTheBeat, parse_mania => Mania);
    }
    pub fn run(data: &[u8], every: i64, sched: &[u32], tail: usize, eintr: &[u32]) -> std::io::Result<Rec> {
        WANT.with(|w| *w.borrow_mut() = [inner(0), inner(1), inner(2)]);
        EVERY.with(|e| e.set(every));
        BAD.with(|b| b.set(0));
        let mut dev = SimReader::new(data, sched, tail, eintr, None);
        let r = NRec::decode(&mut dev);
        EVERY.with(|e| e.set(0));
        let bad = BAD.with(|b| b.get());
        let r = r?;
        if bad > 0 {
            return Err(std::io::Error::new(std::io::ErrorKind::Other, format!("{bad} nested decode(s) started from inside a handler returned something else than at top level")));
        }
        Ok(r.0)
    }
}

/// The same through `rosu_map::from_str` (when the bytes are UTF-8) / `rosu_map::from_bytes` / `rosu_map::from_path`.
fn entry_point(which: i64, data: &[u8], t: i64, idx: u64, st: &mut Stats) -> std::io::Result<Rec> {
    use crate::probe::Probe;
    use rosu_map::section::{colors::Colors, difficulty::Difficulty, editor::Editor, events::Events, general::General, hit_objects::HitObjects, metadata::Metadata, timing_points::TimingPoints};
    fn conv<D: DecodeBeatmap>(p: Probe<D>) -> Rec {
        Rec { version: p.version, log: p.log.into_iter().map(|(s, l, _)| (s, l)).collect() }
    }
    let as_str = (t, idx, std::cell::RefCell::new(st));
    fn go<D: DecodeBeatmap>(data: &[u8], ctx: &(i64, u64, std::cell::RefCell<&mut Stats>)) -> std::io::Result<D> {
        use crate::transport::{T_FROM_PATH, T_FROM_PATH_PIPE, T_FROM_STR};
        let (t, idx) = (ctx.0, ctx.1);
        if t == T_FROM_PATH {
            let dir = crate::transport::tmp_dir();
            let _ = std::fs::create_dir_all(&dir);
            let path = dir.join(format!("c05-{:?}-{idx}.osu", std::thread::current().id()));
            if std::fs::write(&path, data).is_ok() {
                let r = rosu_map::from_path::<D>(&path);
                let _ = std::fs::remove_file(&path);
                return r;
            }
            ctx.2.borrow_mut().inc("realfs.tempfile-write-failed");
            return rosu_map::from_bytes::<D>(data);
        }
        if t == T_FROM_PATH_PIPE && data.len() <= 60_000 {
            use std::io::Write as _;
            use std::os::fd::AsRawFd;
            if let Ok((rd, mut wr)) = std::io::pipe() {
                let ok = wr.write_all(data).is_ok();
                drop(wr);
                let path = format!("/proc/self/fd/{}", rd.as_raw_fd());
                if ok && std::path::Path::new(&path).exists() {
                    let r = rosu_map::from_path::<D>(&path);
                    drop(rd);
                    return r;
                }
            }
            ctx.2.borrow_mut().inc("realfs.pipe-unavailable");
            return rosu_map::from_bytes::<D>(data);
        }
        match std::str::from_utf8(data) {
            Ok(s) if t == T_FROM_STR => rosu_map::from_str::<D>(s),
            _ => rosu_map::from_bytes::<D>(data),
        }
    }
    Ok(match which {
        1 => conv(go::<Probe<rosu_map::Beatmap>>(data, &as_str)?),
        2 => conv(go::<Probe<General>>(data, &as_str)?),
        3 => conv(go::<Probe<Editor>>(data, &as_str)?),
        4 => conv(go::<Probe<Metadata>>(data, &as_str)?),
        5 => conv(go::<Probe<Difficulty>>(data, &as_str)?),
        6 => conv(go::<Probe<Events>>(data, &as_str)?),
        7 => conv(go::<Probe<Colors>>(data, &as_str)?),
        8 => conv(go::<Probe<TimingPoints>>(data, &as_str)?),
        9 => conv(go::<Probe<HitObjects>>(data, &as_str)?),
        _ => go::<Rec>(data, &as_str)?,
    })
}

fn compare(real: &Rec, model: &Routed, data: &[u8]) -> Result<(), Violation> {
    let (enc, _) = crate::corpus::sniff(data);
    // a code unit containing byte 0x0A / the LE tail case have their own signatures (known defect classes D2/D3)
    let sig = |default: &str| -> String {
        let text = crate::corpus::model_text(data);
        let tricky = text.chars().any(|c| c != '\n' && {
            let mut b = [0u16; 2];
            c.encode_utf16(&mut b).iter().any(|u| u.to_le_bytes().contains(&0x0A))
        });
        if tricky && matches!(enc, crate::corpus::Enc::Utf16Le | crate::corpus::Enc::Utf16Be) {
            "utf16-code-unit-containing-0x0A".to_string()
        } else {
            default.to_string()
        }
    };
    if real.version != model.version {
        return Err(Violation::new("C05/version", &sig("version"), format!("State::create got version {} but the framing rules give {}", real.version, model.version)));
    }
    let n = real.log.len().min(model.log.len());
    for i in 0..n {
        let (rs, rl) = &real.log[i];
        let (ms, ml, li) = &model.log[i];
        if rs != ms || rl != ml {
            return Err(Violation::new(
                "C05/delivery-mismatch",
                &sig("delivery"),
                format!("delivery #{i}: real driver handed ({rs}, {rl:?}) but the framing rules give ({ms}, {ml:?}) [file line {li}]; real has {} deliveries, model {}", real.log.len(), model.log.len()),
            ));
        }
    }
    if real.log.len() != model.log.len() {
        let what = if real.log.len() > model.log.len() { format!("extra delivery {:?}", real.log[n]) } else { format!("missing delivery {:?}", model.log[n]) };
        return Err(Violation::new("C05/delivery-mismatch", &sig("delivery-count"), format!("real driver made {} deliveries, framing rules give {}: {what}", real.log.len(), model.log.len())));
    }
    Ok(())
}
