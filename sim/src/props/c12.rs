//! C12 — timing-point lines resolve by the legacy precedence rules.
//! Line histories (with message-style perturbations: reorder, duplicate, drop) are fed to the real
//! `TimingPointsState` one record at a time — or through whole-file decode — and the four resulting lists are
//! compared bit-exactly with the legacy reference model; ordering and clamp invariants are checked on the real lists.

use crate::corpus::{file_text, Corpus};
use crate::engine::{Scenario, Stats, Tier, Violation};
use crate::json::J;
use crate::models::router::route_text;
use crate::models::timing::{model, MC};
use crate::plan::Plan;
use crate::rng::{Fnv, Rng};
use rosu_map::section::timing_points::{ControlPoints, TimingPoints};
use rosu_map::{Beatmap, DecodeBeatmap, DecodeState};
use std::sync::Arc;

pub struct C12 {
    pub corpus: Arc<Corpus>,
    /// timing sections of the bundled maps
    sections: Vec<(String, Vec<String>)>,
}

const ENUM_ALPHABET: &[&str] = &[
    "0,500,4,1,0,100,1,0",
    "0,-100,4,1,0,100,0,0",
    "0.00000000000000001,-50,4,2,0,60,0,1",
    "10,300,4,1,0,100,1,8",
    "10,-200,4,1,0,100,0,0",
    "10,NaN,4,1,0,100,0,0",
    "10,NaN,4,1,0,100,1,0",
    "20,-100,4,1,0,100,0,0",
    "-5,1e9,3,3,1,150,1,1",
    "10,500",
    "20,0,4,0,0,-5,1,0",
    "abc",
];

fn enum_count(maxlen: u32) -> u64 {
    (0..=maxlen).map(|l| (ENUM_ALPHABET.len() as u64).pow(l)).sum::<u64>() * 4
}

impl C12 {
    pub fn new(corpus: Arc<Corpus>) -> C12 {
        let mut sections = Vec::new();
        for (name, b) in &corpus.files {
            let r = route_text(&file_text(b));
            let l: Vec<String> = r.log.iter().filter(|x| x.0 == "TimingPoints").map(|x| x.1.clone()).collect();
            if !l.is_empty() && l.len() <= 400 {
                sections.push((name.clone(), l));
            }
        }
        C12 { corpus, sections }
    }
    fn maxlen(tier: Tier) -> u32 {
        match tier {
            Tier::Quick => 3,
            Tier::Thorough => 5,
        }
    }
}

const TIMES: &[&str] = &["0", "0.00000000000000001", "10", "10", "20", "-5", "10.5", "1e3", "2147483648", "abc", " 7 ", "10.000000000000001", "20", "0", "0.00000000000000015", "0.0000000000000003", "-0.0000000000000001", "0.00000000000000045", "0.5", "0.5000000000000001", "\u{3000}10", "20\u{a0}", "\u{b}10", "\u{2003}0"];
const BLS: &[&str] = &["500", "-100", "-50", "0", "-0.5", "1e9", "3000000000", "NaN", "-1000000", "5", "70000", "-20", "x", "inf", "-inf", "333.33", "-100", "500", "6", "60000", "-1000", "-10", "-100.00000000000001", "-200", "-200.00000000000003", "-400", "-400.00000000000006", "-1000.0000000000001", "-10000", "-100000", "nan", "NAN", "+NaN", "-NaN", "-nan", "infinity", "+inf", "-0", "-0.0", "-0e3", "-1e-400", "1e-400", "\u{3000}500", "-100\u{a0}", "2147483647", "-2147483647", "2147483647.0", "2.147483647e9", "2147483646", "2147483648", "-2147483648", "-66.66666666666667", "-66.66666666666666", "-99.99999999999999", "-80", "-79.99999999999999", "-57.142857142857146", "-57.14285714285714"];
const SIGS: &[&str] = &["0.5", "03", " 0", "0x", "4", "3", "0", "05", "-1", "7", "", "x", "4", "2147483647", "2147483648", "4294967295", "+3", " 5", "-0"];
const BANKS: &[&str] = &["0", "1", "2", "3", "4", "-1", "x", "\u{85}2", "3\u{2003}"];
const CUSTOMS: &[&str] = &["0", "1", "2", "x", "-1", "-2", "65538", "65536", "0", "-1"];
const VOLS: &[&str] = &["100", "0", "-5", "150", "50", "x", "100", "\u{a0}60", "70\u{3000}"];
const TCS: &[&str] = &["1", "0", "", "2", "10", "0", "1", " 1", "1 ", " 0", "+1", "01", "1.0", "true", "\t1"];
const FLS: &[&str] = &["0", "1", "8", "9", "x", "3", "0"];

/// Integer spellings at the edges of every width a field might be narrowed or widened to (8/16/32/64 bit, signed and
/// unsigned), plus padded/signed forms; any integer field of a line may carry one.
pub const INT_EDGES: &[&str] = &[
    "127", "128", "-128", "-129", "255", "256", "257", "-255", "-256", "-8", "-7", "-1", "264", "265", "32767", "32768", "-32768", "-32769", "65535", "65536", "65537", "2147483646", "2147483647", "2147483648", "-2147483646", "-2147483647",
    "-2147483648", "-2147483649", "4294967295", "4294967296", "4294967297", "-4294967295", "9223372036854775807", "9223372036854775808", "-9223372036854775808", "18446744073709551616", "007", "+7", "-0", "00", "+0", "0x8", "8.0", "1e1", "",
];
/// `Mode:` values: the four ids plus spellings that are not a mode and must leave the current mode alone.
const MODE_VALUES: &[&str] = &["0", "1", "2", "3", "0", "1", "2", "3", "4", "7", "01", "03", "+1", "-1", "255", "256", "257", "259", "1.0", "3 ", " 1", "", "x", "Mania", "taiko"];

fn gen_line(rng: &mut Rng) -> String {
    let nf = if rng.chance(1, 3) { 2 + rng.below(7) } else { 8 };
    let mut f = [*rng.pick(TIMES), *rng.pick(BLS), *rng.pick(SIGS), *rng.pick(BANKS), *rng.pick(CUSTOMS), *rng.pick(VOLS), *rng.pick(TCS), *rng.pick(FLS)];
    if rng.chance(1, 5) {
        // one integer field (meter, bank, custom bank, volume, flags; rarely the time or the timing-change flag)
        // carries a width-boundary spelling
        let at = *rng.pick(&[2usize, 3, 4, 5, 7, 7, 7, 0, 6]);
        f[at] = *rng.pick(INT_EDGES);
        if at == 0 && f[at] == "-0" {
            f[at] = "0"; // a negative-zero time is outside the stated alphabet (see assumptions)
        }
    }
    let mut l = f[..nf.min(8)].join(",");
    if nf == 8 && rng.chance(1, 8) {
        // surplus fields / a trailing comma after the effect flags
        l.push_str(*rng.pick(&[",", ",0", ",x,y", ",,", ",1,2,3"]));
    }
    if rng.chance(1, 10) {
        l.push_str(*rng.pick(&[" // c", "//c", " // a,b", "// 1,2,3", " // see https://osu.ppy.sh", " // a // b", "////", "// x //"]));
    }
    if rng.chance(1, 20) {
        l = l.split(',').next().unwrap().to_string();
    }
    l
}

fn general_lines(g: i64) -> (Vec<&'static str>, u8, i32) {
    match g {
        1 => (vec!["SampleSet: Soft", "SampleVolume: 60"], 2, 60),
        2 => (vec!["SampleSet: None"], 0, 100),
        3 => (vec!["SampleSet: Drum", "SampleVolume: 0"], 3, 0),
        4 => (vec!["SampleVolume: 120"], 0, 120),
        5 => (vec!["SampleSet: Soft", "SampleVolume: -30"], 2, -30),
        // spellings the [General] parser rejects: the default stays None/100
        6 => (vec!["SampleSet: soft"], 0, 100),
        7 => (vec!["SampleSet: DRUM", "SampleVolume: 1e2"], 0, 100),
        _ => (vec![], 0, 100),
    }
}

impl Scenario for C12 {
    fn id(&self) -> &'static str {
        "C12"
    }
    fn level(&self) -> &'static str {
        "exploration"
    }
    fn rule(&self) -> String {
        "Line histories over the property's alphabet (times {0, 0+eps, 10, 10, 20, -5, ...}, timing/inherited, beat lengths negative/zero/huge/NaN/out of limits, kiai/omit flags, banks 0..4, volumes -5..150, trailing fields omitted, comments) in all four modes and four [General] defaults: (1) every sequence up to length 3 (quick) / 5 (thorough) over a 12-line alphabet x 4 modes — enumerated; (2) seeded histories of length 0..24 with reorder / duplicate / drop perturbations; (3) the timing sections of the bundled maps under the same perturbations. Driven through the line API of TimingPointsState, decode::<TimingPoints> and decode::<Beatmap>. The four lists must equal the legacy model bit for bit and be strictly increasing and clamped. Also: integer fields at the edges of every 8/16/32/64-bit width and Mode values that are not a mode. Round 8: records of other sections between timing-point lines; decode::<HitObjects>. Round 13: header look-alikes (!raw lines) between timing-point lines. distinct_nontrivial = distinct plan hashes with >= 2 lines.".into()
    }
    fn assumptions(&self) -> Vec<String> {
        vec![
            "the legacy reference model (sim/src/models/timing.rs, ~200 lines incl. field grammar) is the trusted base; no I/O fault kind applies to this property — the simulator degenerates to a seeded search over line histories with reorder/duplicate/drop perturbations (weak fit, stated in DESIGN.md §2)".into(),
            "'-0' as a time and NaN times are outside the stated alphabet and are not generated".into(),
        ]
    }
    fn components(&self) -> J {
        J::obj().with("real", J::Arr(vec![J::str("TimingPoints::parse_general / parse_timing_points, TimingPointsState, ControlPoints::add, state-to-value conversion; driver for the whole-file share")])).with("stub", J::Arr(vec![J::str("none")]))
    }
    fn total_runs(&self, tier: Tier) -> u64 {
        enum_count(Self::maxlen(tier))
            + match tier {
                Tier::Quick => 250_000,
                Tier::Thorough => 20_000_000,
            }
    }
    fn plan(&self, seed: u64, idx: u64, tier: Tier) -> Plan {
        let ne = enum_count(Self::maxlen(tier));
        if idx < ne {
            let mut p = Plan::new("C12", "enumerated", seed, idx);
            let mode = idx % 4;
            let mut k = idx / 4;
            let a = ENUM_ALPHABET.len() as u64;
            let mut len = 0u32;
            loop {
                let c = a.pow(len);
                if k < c {
                    break;
                }
                k -= c;
                len += 1;
            }
            for _ in 0..len {
                p.lines.push(ENUM_ALPHABET[(k % a) as usize].to_string());
                k /= a;
            }
            p.set("mode", mode as i64);
            p.set("general", 0);
            p.set("via", (idx / 4 % 3) as i64);
            return p;
        }
        let mut rng = Rng::for_run(seed, "C12", idx);
        let mut p = Plan::new("C12", "seeded", seed, idx);
        p.set("mode", rng.below(4) as i64);
        p.set("general", rng.below(8) as i64);
        p.set("via", *rng.pick(&[0i64, 0, 1, 2, 2, 3]));
        p.set("version", *rng.pick(&[14i64, 14, 5, 6, 7, 9, 13, 128]));
        if rng.chance(1, 6) && !self.sections.is_empty() {
            let (name, l) = rng.pick(&self.sections);
            p.scen = "bundled-section".into();
            p.note = name.clone();
            let st = rng.below(l.len());
            let n = 1 + rng.below(30.min(l.len() - st));
            p.lines = l[st..st + n].to_vec();
        } else {
            let len = rng.below(25);
            p.lines = (0..len).map(|_| gen_line(&mut rng)).collect();
        }
        // the [General] section may come back between timing-point lines and change the mode
        if rng.chance(1, 6) && !p.lines.is_empty() {
            for _ in 0..1 + rng.below(2) {
                let at = rng.below(p.lines.len() + 1);
                p.lines.insert(at, format!("!mode {}", *rng.pick(MODE_VALUES)));
            }
            p.faults.push("mode-switch-between-lines".into());
        }
        // records of OTHER sections arriving between timing-point lines (sections may repeat and interleave): they are not
        // timing-point lines and must neither open nor close a same-time group
        if rng.chance(1, 5) && !p.lines.is_empty() {
            for _ in 0..1 + rng.below(3) {
                let at = rng.below(p.lines.len() + 1);
                p.lines.insert(at, format!("!sec {}", *rng.pick(&["HitObjects 256,192,1000,1,0", "HitObjects garbage", "HitObjects 100,100,2000,2,0,L|200:100,1,100", "Events 2,100,200", "Events 0,0,\"bg.png\",0,0", "Difficulty SliderMultiplier:2", "Difficulty SliderTickRate:4", "Metadata Title:x", "Editor BeatDivisor:4", "Colours Combo1 : 1,2,3", "General StackLeniency: 0.5", "Unknown whatever"])));
            }
            p.faults.push("foreign-section-record-between-lines".into());
        }
        // lines that look like section headers but are not (a comment behind the bracket, a name no format knows, extra
        // brackets): inside [TimingPoints] they are one more rejected line and nothing else
        if rng.chance(1, 6) && !p.lines.is_empty() {
            for _ in 0..1 + rng.below(2) {
                let at = rng.below(p.lines.len() + 1);
                p.lines.insert(at, format!("!raw {}", *rng.pick(&["[Events] // text", "[General] //x", "[HitObjects]// y", "[Fonts]", "[Storyboard]", "[[Events]]", "[Events]]", "[HitObjetcs]", "[Genaral]", " [Events]", "[TimingPoints] // again", "[Events]x"])));
            }
            p.faults.push("header-look-alike-between-lines".into());
        }
        // message-style perturbations
        for _ in 0..rng.below(4) {
            match rng.below(4) {
                0 if p.lines.len() > 1 => {
                    let i = rng.below(p.lines.len() - 1);
                    p.lines.swap(i, i + 1);
                    p.faults.push("L4-reorder".into());
                }
                1 if !p.lines.is_empty() => {
                    let i = rng.below(p.lines.len());
                    let l = p.lines[i].clone();
                    let j = rng.below(p.lines.len() + 1);
                    p.lines.insert(j, l);
                    p.faults.push("L3-duplicate".into());
                }
                2 if !p.lines.is_empty() => {
                    let i = rng.below(p.lines.len());
                    p.lines.remove(i);
                    p.faults.push("L2-drop".into());
                }
                3 if p.lines.len() > 2 => {
                    rng.shuffle(&mut p.lines);
                    p.faults.push("L4-permute".into());
                }
                _ => {}
            }
        }
        p
    }
    fn execute(&self, plan: &Plan, st: &mut Stats) -> Result<(), Violation> {
        let mode = plan.get("mode").rem_euclid(4);
        let (general, def_bank, def_vol) = general_lines(plan.get("general"));
        let via = plan.get("via");
        // format versions below 5 are left out on purpose: osu!lazer shifts early-version times by 24 ms, the statement
        // is silent about it, so either behaviour would have to be accepted there
        let version = plan.get_or("version", 14).clamp(5, 1000) as i32;
        st.add("steps.ops_applied", plan.lines.len() as u64);
        let (real, lines_seen): (ControlPoints, Vec<String>) = if via == 0 {
            st.inc("via.line-api");
            let mut s = <TimingPoints as DecodeBeatmap>::State::create(version);
            for g in &general {
                let _ = TimingPoints::parse_general(&mut s, g);
            }
            let _ = TimingPoints::parse_general(&mut s, &format!("Mode: {mode}"));
            for l in &plan.lines {
                if let Some(m) = l.strip_prefix("!mode ") {
                    let _ = TimingPoints::parse_general(&mut s, &format!("Mode: {m}"));
                } else if let Some(r) = l.strip_prefix("!raw ") {
                    let _ = TimingPoints::parse_timing_points(&mut s, r);
                } else if let Some(r) = l.strip_prefix("!sec ") {
                    let (sec, rec) = r.split_once(' ').unwrap_or((r, ""));
                    let _ = match sec {
                        "HitObjects" => TimingPoints::parse_hit_objects(&mut s, rec),
                        "Events" => TimingPoints::parse_events(&mut s, rec),
                        "Difficulty" => TimingPoints::parse_difficulty(&mut s, rec),
                        "Metadata" => TimingPoints::parse_metadata(&mut s, rec),
                        "Editor" => TimingPoints::parse_editor(&mut s, rec),
                        "Colours" => TimingPoints::parse_colors(&mut s, rec),
                        "General" => TimingPoints::parse_general(&mut s, rec),
                        _ => Ok(()),
                    };
                } else {
                    let _ = TimingPoints::parse_timing_points(&mut s, l);
                }
            }
            let tp: TimingPoints = s.into();
            (tp.control_points, plan.lines.clone())
        } else {
            let mut text = format!("osu file format v{version}\n\n[General]\n");
            for g in &general {
                text.push_str(g);
                text.push('\n');
            }
            text.push_str(&format!("Mode: {mode}\n\n[TimingPoints]\n"));
            for l in &plan.lines {
                if let Some(m) = l.strip_prefix("!mode ") {
                    text.push_str(&format!("[General]\nMode: {m}\n[TimingPoints]\n"));
                } else if let Some(r) = l.strip_prefix("!raw ") {
                    text.push_str(r);
                    text.push('\n');
                } else if let Some(r) = l.strip_prefix("!sec ") {
                    let (sec, rec) = r.split_once(' ').unwrap_or((r, ""));
                    text.push_str(&format!("[{sec}]\n{rec}\n[TimingPoints]\n"));
                } else {
                    text.push_str(l);
                    text.push('\n');
                }
            }
            // what the driver hands to the timing parser is decided by the framing rules (C05), not by this model
            let routed = route_text(&text);
            // model input in delivery order: timing lines and every Mode record
            let seen: Vec<String> = routed
                .log
                .iter()
                .filter_map(|x| match x.0 {
                    "TimingPoints" => Some(x.1.clone()),
                    "General" => x.1.strip_prefix("Mode: ").map(|m| format!("!mode {m}")),
                    _ => None,
                })
                .collect();
            let foreign = plan.lines.iter().any(|l| l.starts_with("!sec ") || l.starts_with("!raw "));
            if !foreign && routed.log.iter().any(|x| x.0 != "TimingPoints" && x.0 != "General") {
                // a generated line looked like a section header: outside this scenario
                return Ok(());
            }
            let cp = if via == 1 {
                st.inc("via.decode-TimingPoints");
                rosu_map::from_str::<TimingPoints>(&text).map_err(|e| Violation::new("C12/decode-error", "err", e.to_string()))?.control_points
            } else if via == 3 {
                st.inc("via.decode-HitObjects");
                rosu_map::from_str::<rosu_map::section::hit_objects::HitObjects>(&text).map_err(|e| Violation::new("C12/decode-error", "err", e.to_string()))?.control_points
            } else {
                st.inc("via.decode-Beatmap");
                rosu_map::from_str::<Beatmap>(&text).map_err(|e| Violation::new("C12/decode-error", "err", e.to_string()))?.control_points
            };
            (cp, seen)
        };
        let (m, accepted) = model(&lines_seen, mode, def_bank, def_vol);
        st.add("probe.lines-accepted", accepted.iter().filter(|a| **a).count() as u64);
        st.add("probe.lines-rejected", accepted.iter().filter(|a| !**a).count() as u64);
        if m.t.len() + m.d.len() + m.e.len() + m.s.len() > 0 {
            st.inc("probe.histories-with-nonempty-result");
        }
        if m.d.iter().any(|d| !d.ticks) {
            st.inc("probe.nan-inherited-line-switched-ticks-off");
        }
        let mut h = Fnv::new();
        use std::fmt::Write as _;
        let _ = write!(h, "{real:?}");
        st.outcome = h.finish();
        invariants(&real)?;
        same(&m, &real).map_err(|what| {
            Violation::new(
                "C12/model-mismatch",
                what.split(':').next().unwrap_or("lists"),
                format!("mode {mode}, [General] {general:?}, via {}: {what}\n lines: {lines_seen:?}\n model: {m:?}\n real : {real:?}", ["line API", "decode::<TimingPoints>", "decode::<Beatmap>", "decode::<HitObjects>"][via.clamp(0, 3) as usize]),
            )
        })
    }
    fn nontrivial(&self, plan: &Plan) -> bool {
        plan.lines.len() >= 2
    }
    fn reach_probes(&self) -> Vec<&'static str> {
        vec!["probe.lines-accepted", "probe.lines-rejected", "probe.histories-with-nonempty-result", "probe.nan-inherited-line-switched-ticks-off", "via.line-api", "via.decode-TimingPoints", "via.decode-Beatmap"]
    }
}

fn invariants(r: &ControlPoints) -> Result<(), Violation> {
    let inc = |name: &str, times: Vec<f64>| -> Result<(), Violation> {
        for w in times.windows(2) {
            if !(w[0] < w[1]) {
                return Err(Violation::new("C12/not-strictly-increasing", name, format!("{name} list not strictly increasing in time: {} then {}", w[0], w[1])));
            }
        }
        Ok(())
    };
    inc("timing", r.timing_points.iter().map(|p| p.time).collect())?;
    inc("difficulty", r.difficulty_points.iter().map(|p| p.time).collect())?;
    inc("effect", r.effect_points.iter().map(|p| p.time).collect())?;
    inc("sample", r.sample_points.iter().map(|p| p.time).collect())?;
    for p in &r.timing_points {
        if !(6.0..=60000.0).contains(&p.beat_len) {
            return Err(Violation::new("C12/clamp", "beat-length", format!("beat length {} outside [6, 60000]", p.beat_len)));
        }
    }
    for p in &r.difficulty_points {
        if !(0.1..=10.0).contains(&p.slider_velocity) {
            return Err(Violation::new("C12/clamp", "slider-velocity", format!("slider velocity {} outside [0.1, 10]", p.slider_velocity)));
        }
    }
    for p in &r.effect_points {
        if !(0.01..=10.0).contains(&p.scroll_speed) {
            return Err(Violation::new("C12/clamp", "scroll-speed", format!("scroll speed {} outside [0.01, 10]", p.scroll_speed)));
        }
    }
    for p in &r.sample_points {
        if !(0..=100).contains(&p.sample_volume) {
            return Err(Violation::new("C12/clamp", "volume", format!("sample volume {} outside [0, 100]", p.sample_volume)));
        }
    }
    Ok(())
}

fn same(m: &MC, r: &ControlPoints) -> Result<(), String> {
    if m.t.len() != r.timing_points.len() {
        return Err(format!("timing: {} points, model has {}", r.timing_points.len(), m.t.len()));
    }
    for (a, b) in m.t.iter().zip(&r.timing_points) {
        if a.time.to_bits() != b.time.to_bits() || a.beat_len.to_bits() != b.beat_len.to_bits() || a.omit != b.omit_first_bar_line || a.sig != b.time_signature.numerator.get() {
            return Err(format!("timing: point {b:?} vs model {a:?}"));
        }
    }
    if m.d.len() != r.difficulty_points.len() {
        return Err(format!("difficulty: {} points, model has {}", r.difficulty_points.len(), m.d.len()));
    }
    for (a, b) in m.d.iter().zip(&r.difficulty_points) {
        if a.time.to_bits() != b.time.to_bits() || a.sv.to_bits() != b.slider_velocity.to_bits() || a.ticks != b.generate_ticks {
            return Err(format!("difficulty: point {b:?} vs model {a:?}"));
        }
    }
    if m.e.len() != r.effect_points.len() {
        return Err(format!("effect: {} points, model has {}", r.effect_points.len(), m.e.len()));
    }
    for (a, b) in m.e.iter().zip(&r.effect_points) {
        if a.time.to_bits() != b.time.to_bits() || a.kiai != b.kiai || a.scroll.to_bits() != b.scroll_speed.to_bits() {
            return Err(format!("effect: point {b:?} vs model {a:?}"));
        }
    }
    if m.s.len() != r.sample_points.len() {
        return Err(format!("sample: {} points, model has {}", r.sample_points.len(), m.s.len()));
    }
    for (a, b) in m.s.iter().zip(&r.sample_points) {
        if a.time.to_bits() != b.time.to_bits() || a.bank != b.sample_bank as u8 || a.vol != b.sample_volume || a.custom != b.custom_sample_bank {
            return Err(format!("sample: point {b:?} vs model {a:?}"));
        }
    }
    Ok(())
}
