//! C01 — decoding and re-encoding never panic, hang or fail on arbitrary bytes.
//! Storage faults (truncation at every length, bit flips / overwrites, torn splices, lost / zeroed / duplicated
//! blocks, invalid-sequence injection), record faults, encoding and mode knobs applied to bundled and generated
//! files; plus pure workload families (uniform noise, structural-dictionary noise). All nine decoders must return
//! Ok because the reader reported no failure; the Beatmap is re-encoded (Ok, valid UTF-8) and decoded again (Ok).

use crate::corpus::{encode_text, file_text, gen_osu, record_faults, set_mode, sniff, storage_fault, Corpus, Enc, DICT, ENCS, STORAGE_ALL};
use crate::engine::{Scenario, Stats, Tier, Violation};
use crate::json::J;
use crate::plan::Plan;
use crate::probe::{decode_fp, Dec, DECS};
use crate::rng::{Fnv, Rng};
use crate::simio::SimReader;
use crate::transport::{note_read_stats, plan_transport, DevRef, T_BUFREADER, T_SIM};
use rosu_map::{Beatmap, DecodeBeatmap};
use std::io::BufReader;
use std::sync::Arc;

pub struct C01 {
    pub corpus: Arc<Corpus>,
    trunc_cum_q: Vec<u64>,
    trunc_cum_t: Vec<u64>,
}

impl C01 {
    /// Execution-only instance (no corpus, no planning tables): used when plans come from a file (replay under Miri).
    pub fn exec_only() -> C01 {
        C01 { corpus: Arc::new(Corpus { files: vec![], small: vec![], large: vec![] }), trunc_cum_q: vec![], trunc_cum_t: vec![] }
    }
    pub fn new(corpus: Arc<Corpus>) -> C01 {
        let mut cq = Vec::new();
        let mut ct = Vec::new();
        let (mut a, mut b) = (0u64, 0u64);
        for &f in &corpus.small {
            let n = corpus.files[f].1.len() as u64;
            a += n + 1;
            cq.push(a);
            // thorough: also the UTF-16LE and UTF-16BE transcodings
            let n16 = encode_text(&file_text(&corpus.files[f].1), Enc::Utf16Le).len() as u64;
            b += (n + 1) + 2 * (n16 + 1);
            ct.push(b);
        }
        C01 { corpus, trunc_cum_q: cq, trunc_cum_t: ct }
    }
    fn trunc(&self, tier: Tier) -> &Vec<u64> {
        match tier {
            Tier::Quick => &self.trunc_cum_q,
            Tier::Thorough => &self.trunc_cum_t,
        }
    }
}

const FIRST_LINES: &[&str] = &["osu file format v", "osu file format v14", "osu file format v\u{e9}", "OSU FILE FORMAT V14", "osu file format v9 v", "osu file format", "[General]", "// c", "osu file format v-2147483648", "osu file format v 5 "];

/// (special character or nothing) x first-line variant x (special character or nothing): 24 x 10 x 24 first lines, each
/// in front of a small file
fn first_line_count() -> u64 {
    let n = crate::corpus::SPECIAL_CHARS.len() as u64 + 1;
    n * FIRST_LINES.len() as u64 * n
}

fn short_count() -> u64 {
    (0..=4u32).map(|l| (crate::corpus::SHORT_ALPHABET.len() as u64).pow(l)).sum::<u64>() * 2
}

fn err_sig(data: &[u8], kind: std::io::ErrorKind) -> String {
    let (enc, skip) = sniff(data);
    if enc == Enc::Utf16Le && (data.len() - skip) % 2 == 1 && data.last() == Some(&0x0A) && kind == std::io::ErrorKind::UnexpectedEof {
        return "utf16le-ends-after-LF-low-byte".into();
    }
    format!("err-{kind:?}")
}

impl Scenario for C01 {
    fn id(&self) -> &'static str {
        "C01"
    }
    fn level(&self) -> &'static str {
        "exploration"
    }
    fn rule(&self) -> String {
        "Families: short-prefix — every byte string of length <= 4 over a 12-byte structural alphabet (BOM pieces, NUL, CR, LF, '[', …), alone and in front of a small file, enumerated in both tiers; trunc-sweep — every truncation length of every small bundled file (thorough: also of its UTF-16LE/BE transcodings), enumerated; storage-faults — bundled or generated file with 0..3 storage faults (S1 truncate, S2 bit flip / overwrite / insert from a structural-byte dictionary, S3 torn splice with another file at 512-byte or arbitrary boundaries, S4 lost / zeroed / duplicated block, S6 invalid UTF-8 / lone surrogate / odd tail) and 0..3 record faults (L1..L5), encoding knob, Mode knob 0..3, mostly one-shot delivery with a share under chunking / Interrupted; workload-only families reported separately: uniform noise, dictionary noise, hostile slider geometry (near-collinear arcs at large coordinates that yield NaN lengths, huge arcs, limit coordinates). Every plan runs all nine decoder types; the Beatmap is encoded (Vec and encode_to_string), checked for UTF-8 and decoded again. distinct_nontrivial = distinct plan hashes that carry at least one storage or record fault or are noise.".into()
    }
    fn assumptions(&self) -> Vec<String> {
        vec![
            "reach into 'all byte strings' is that of a seeded mutational generator; a clean batch is evidence, not proof".into(),
            "memory-safety clause: a sample of the same plans is re-executed under Miri in the thorough tier (./check C01 thorough); allocation failure cannot be injected as a recoverable fault (aborts), only bounded by ulimit -v".into(),
            "the tracing feature set is exercised by a second build of the simulator (evidence/C01.tracing.json)".into(),
            "noise and grammar-generated inputs are workload generation, not fault injection; they are counted separately in coverage.counters (family.*)".into(),
        ]
    }
    fn components(&self) -> J {
        J::obj().with("real", J::Arr(vec![J::str("everything in rosu-map on the decode and encode paths, all nine DecodeBeatmap impls"), J::str("std::io::BufReader for the composed share")])).with("stub", J::Arr(vec![J::str("byte source SimReader; sink is a Vec")]))
    }
    fn total_runs(&self, tier: Tier) -> u64 {
        self.trunc(tier).last().copied().unwrap_or(0)
            + short_count()
            + first_line_count()
            + match tier {
                Tier::Quick => 180_000,
                Tier::Thorough => 6_000_000,
            }
    }
    fn plan(&self, seed: u64, idx: u64, tier: Tier) -> Plan {
        let tr = self.trunc(tier);
        let ntr = tr.last().copied().unwrap_or(0);
        if idx < ntr {
            let k = tr.partition_point(|&c| c <= idx);
            let base = if k == 0 { 0 } else { tr[k - 1] };
            let j = idx - base;
            let f = self.corpus.small[k];
            let raw = &self.corpus.files[f].1;
            let mut p = Plan::new("C01", "trunc-sweep", seed, idx);
            let n = raw.len() as u64 + 1;
            if j < n {
                p.data = raw[..j as usize].to_vec();
            } else {
                let j2 = j - n;
                let n16 = encode_text(&file_text(raw), Enc::Utf16Le).len() as u64 + 1;
                let (enc, cut) = if j2 < n16 { (Enc::Utf16Le, j2) } else { (Enc::Utf16Be, j2 - n16) };
                let mut d = encode_text(&file_text(raw), enc);
                d.truncate(cut as usize);
                p.data = d;
            }
            p.faults.push("S1-truncate".into());
            p.note = self.corpus.files[f].0.clone();
            return p;
        }
        if idx < ntr + short_count() {
            // exhaustive: every byte string of length <= 4 over the structural alphabet, alone or followed by a small file
            let mut k = idx - ntr;
            let tail = k % 2;
            k /= 2;
            let a = crate::corpus::SHORT_ALPHABET.len() as u64;
            let mut len = 0u32;
            loop {
                let c = a.pow(len);
                if k < c {
                    break;
                }
                k -= c;
                len += 1;
            }
            let mut p = Plan::new("C01", "short-prefix", seed, idx);
            for _ in 0..len {
                p.data.push(crate::corpus::SHORT_ALPHABET[(k % a) as usize]);
                k /= a;
            }
            if tail == 1 {
                p.data.extend_from_slice(b"osu file format v9\n[General]\nMode:1\n[HitObjects]\n1,2,3,1,0\n");
            }
            return p;
        }
        if idx < ntr + short_count() + first_line_count() {
            let mut k = idx - ntr - short_count();
            let n = crate::corpus::SPECIAL_CHARS.len() as u64 + 1;
            let pre = k % n;
            k /= n;
            let fl = FIRST_LINES[(k % FIRST_LINES.len() as u64) as usize];
            k /= FIRST_LINES.len() as u64;
            let suf = k % n;
            let ch = |i: u64| if i == 0 { "" } else { crate::corpus::SPECIAL_CHARS[(i - 1) as usize] };
            let mut p = Plan::new("C01", "first-line", seed, idx);
            p.data = format!("{}{fl}{}\n[General]\nMode: 3\n[Metadata]\nTitle:t\n[HitObjects]\n1,2,3,1,0\n", ch(pre), ch(suf)).into_bytes();
            return p;
        }
        let mut rng = Rng::for_run(seed, "C01", idx);
        let mut p = Plan::new("C01", "storage-faults", seed, idx);
        match rng.below(20) {
            0 => {
                p.scen = "noise-uniform".into();
                let n = rng.below(513);
                p.data = (0..n).map(|_| rng.below(256) as u8).collect();
                if rng.chance(1, 4) && n >= 3 {
                    let b = rng.pick(&ENCS).bom();
                    p.data[..b.len()].copy_from_slice(b);
                }
            }
            7 if rng.chance(1, 40) => {
                // one enormous UTF-16 line dense with 0x0A bytes (U+4E0A / U+0A0A): every internal line cap is crossed at
                // a byte that looks like a line feed
                p.scen = "giant-line".into();
                // the 16 MiB size only in the thorough tier (seconds per plan)
                let units = if tier == Tier::Thorough && rng.chance(1, 3) { 8_500_000usize } else { *rng.pick(&[40_000usize, 600_000]) };
                let ch = *rng.pick(&["\u{4E0A}", "\u{0A0A}", "\u{0A61}"]);
                let mut t = String::from("osu file format v14\n[Metadata]\nTags:");
                t.push_str(&"a".repeat(rng.below(3)));
                t.push_str(&ch.repeat(units));
                t.push_str("\nTitle:t\n");
                p.data = encode_text(&t, if rng.chance(1, 2) { Enc::Utf16Le } else { Enc::Utf16Be });
                p.set("decs", 0b0_0000_1000);
                p.set("noshrink_data", 1);
            }
            6 if rng.chance(1, 3) => {
                // pathological repetition: a very long run of one short line kind in front of (or inside) a small file —
                // recursion per line, quadratic buffers and per-line allocations show up here
                p.scen = "repetition".into();
                let n = *rng.pick(&[1_000usize, 20_000, 50_000, 120_000, 400_000]);
                let unit = *rng.pick(&["\n", " \n", "\r\n", "//\n", "// c\n", "[General]\n", "[HitObjects]\n", "x\n", "\t\n", "osu file format v\n", "1,1,1,1,0\n", "0,0\n"]);
                // lines that become stored records (objects, control points) stay <= 20 000: beyond that the run time is
                // spent on legitimate per-object work, not on anything the repetition could reveal
                let n = if unit.contains(',') { n.min(20_000) } else { n };
                let mut t = String::with_capacity(n * unit.len() + 200);
                if rng.chance(1, 3) {
                    t.push_str("osu file format v14\n[General]\nMode: 1\n[HitObjects]\n");
                }
                for _ in 0..n {
                    t.push_str(unit);
                }
                t.push_str("osu file format v7\n[Metadata]\nTitle:t\n[HitObjects]\n10,10,10,1,0\n");
                let enc = if rng.chance(1, 4) { *rng.pick(&ENCS) } else { Enc::Utf8 };
                p.data = encode_text(&t, enc);
                p.set("decs", if n > 20_000 { 0b1_0000_0001 } else { 0x1FF });
            }
            3 | 4 | 5 => {
                // grammar-generated file made of sliders with hostile geometry (workload generation, not a fault)
                p.scen = "hostile-geometry".into();
                let mode = rng.range(0, 3);
                let mut t = format!("osu file format v{}\n\n[General]\nMode: {mode}\n\n[Difficulty]\nSliderMultiplier:{}\nSliderTickRate:{}\n\n[TimingPoints]\n0,{},4,1,0,100,1,0\n\n[HitObjects]\n", rng.range(3, 14), rng.pick(&["1.4", "0.4", "3.6", "1e-3"]), rng.pick(&["1", "0.5", "8"]), rng.pick(&["500", "6", "60000", "0.001"]));
                let mut time = 0i64;
                for _ in 0..2 + rng.below(10) {
                    t.push_str(&crate::corpus::gen_hostile_slider(&mut rng, time));
                    t.push('\n');
                    time += rng.range(0, 2000);
                }
                p.data = t.into_bytes();
                p.set("mode", mode);
            }
            1 | 2 => {
                p.scen = "noise-dictionary".into();
                let n = rng.below(400);
                let mut d = b"osu file format v14\n[HitObjects]\n".to_vec();
                if rng.chance(1, 2) {
                    d = format!("[{}]\n", rng.pick(&["HitObjects", "TimingPoints", "Events", "General", "Difficulty", "Colours", "Metadata", "Editor"])).into_bytes();
                }
                d.extend((0..n).map(|_| *rng.pick(DICT)));
                p.data = d;
            }
            _ => {
                let mut text = if rng.chance(3, 5) {
                    let f = self.corpus.pick(&mut rng, 60);
                    p.set("file", f as i64);
                    p.note = self.corpus.files[f].0.clone();
                    file_text(&self.corpus.files[f].1)
                } else {
                    p.scen = "generated+faults".into();
                    gen_osu(&mut rng)
                };
                if rng.chance(1, 3) {
                    let m = rng.range(0, 3);
                    text = set_mode(&text, m);
                    p.set("mode", m);
                }
                let nr = *rng.pick(&[0usize, 0, 1, 2, 3]);
                if nr > 0 {
                    let (t, applied) = record_faults(&mut rng, &text, nr);
                    text = t;
                    p.faults.extend(applied.into_iter().map(str::to_string));
                }
                let enc = if rng.chance(2, 3) { Enc::Utf8 } else { *rng.pick(&ENCS) };
                p.set("enc", ENCS.iter().position(|e| *e == enc).unwrap() as i64);
                let mut d = encode_text(&text, enc);
                let ns = *rng.pick(&[0usize, 1, 1, 2, 3]);
                for _ in 0..ns {
                    let k = storage_fault(&mut rng, &mut d, &self.corpus, STORAGE_ALL);
                    p.faults.push(k.to_string());
                }
                if rng.chance(1, 40) {
                    // the wrong kind of file: a foreign magic number in front
                    let mut m = rng.pick(crate::corpus::MAGICS).to_vec();
                    m.extend_from_slice(&d);
                    d = m;
                    p.faults.push("S7-foreign-magic-prefix".into());
                }
                p.data = d;
            }
        }
        if rng.chance(1, 5) {
            plan_transport(&mut rng, &mut p, true);
        }
        p
    }
    fn execute(&self, plan: &Plan, st: &mut Stats) -> Result<(), Violation> {
        let data = &plan.data[..];
        st.inc(match plan.scen.as_str() {
            "trunc-sweep" => "family.fault-derived.truncation-sweep",
            "short-prefix" => "family.exhaustive-short-prefixes",
            "first-line" => "family.exhaustive-first-line-variants",
            "noise-uniform" => "family.workload-only.uniform-noise",
            "noise-dictionary" => "family.workload-only.dictionary-noise",
            "generated+faults" => "family.grammar-generated(+faults)",
            "hostile-geometry" => "family.workload-only.hostile-slider-geometry",
            "repetition" => "family.workload-only.pathological-repetition",
            "giant-line" => "family.workload-only.giant-utf16-line",
            _ => "family.fault-derived.bundled-map-mutations",
        });
        for f in &plan.faults {
            st.inc(match f.as_str() {
                "S1-truncate" => "fired.S1-truncate",
                "S2-bitflip" => "fired.S2-bitflip",
                "S2-overwrite" => "fired.S2-overwrite",
                "S2-insert" => "fired.S2-insert",
                "S3-torn" => "fired.S3-torn-splice",
                "S4-lostblock" => "fired.S4-lost-zeroed-duplicated-block",
                "S6-invalid" => "fired.S6-invalid-sequence",
                "L1-corrupt" => "fired.L1-record-corrupted",
                "L2-drop" => "fired.L2-record-dropped",
                "L3-duplicate" => "fired.L3-record-duplicated",
                "L4-reorder" => "fired.L4-records-reordered",
                "L5-noise" => "fired.L5-noise-record",
                "L6-special-char" => "fired.L6-special-character-inserted",
                "L7-confusable-char" => "fired.L7-confusable-character",
                "S7-foreign-magic-prefix" => "fired.S7-foreign-magic-prefix",
                _ => "fired.other",
            });
        }
        let (enc, _) = sniff(data);
        st.inc(match enc {
            Enc::Utf8 => "knob.encoding.utf8",
            Enc::Utf8Bom => "knob.encoding.utf8-bom",
            Enc::Utf16Le => "knob.encoding.utf16le",
            Enc::Utf16Be => "knob.encoding.utf16be",
        });
        let tail = plan.get("tail").max(0) as usize;
        let mut acc = Fnv::new();
        let mask = plan.get_or("decs", 0x1FF);
        for (di, dec) in DECS.into_iter().enumerate() {
            if mask & (1 << di) == 0 {
                continue;
            }
            let mut dev = SimReader::new(data, &plan.sched, tail, &plan.eintr, None);
            let r = if plan.get("t") == T_BUFREADER { decode_fp(dec, BufReader::with_capacity(plan.get_or("cap", 8).max(1) as usize, DevRef(&mut dev))) } else { decode_fp(dec, &mut dev) };
            if dec == Dec::Beatmap {
                note_read_stats(st, data, &dev.st);
                st.inc(crate::transport::transport_name(if plan.get("t") == T_BUFREADER { T_BUFREADER } else { T_SIM }));
            }
            if dev.st.budget_exceeded {
                return Err(Violation::new("C01/livelock", "poll-budget", format!("decode::<{}> polled the reader {} times for {} bytes", dec.name(), dev.st.polls, data.len())));
            }
            match r {
                Ok(f) => acc.u64(f.0),
                Err(e) => {
                    return Err(Violation::new("C01/error-without-io-failure", &err_sig(data, e.kind()), format!("decode::<{}> returned Err({e}) ({:?}) although the reader reported no failure ({} bytes, {} storage)", dec.name(), e.kind(), data.len(), enc.name())));
                }
            }
        }
        st.outcome = acc.finish();
        // re-encode what the full decoder produced
        let mut map = Beatmap::decode(data).map_err(|e| Violation::new("C01/error-without-io-failure", &err_sig(data, e.kind()), format!("Beatmap::decode returned Err({e})")))?;
        st.inc(match map.mode {
            rosu_map::section::general::GameMode::Osu => "knob.mode.osu",
            rosu_map::section::general::GameMode::Taiko => "knob.mode.taiko",
            rosu_map::section::general::GameMode::Catch => "knob.mode.catch",
            rosu_map::section::general::GameMode::Mania => "knob.mode.mania",
        });
        if !map.hit_objects.is_empty() {
            st.inc("probe.decoded-map-has-hit-objects");
        }
        if plan.scen == "hostile-geometry" {
            for h in map.hit_objects.iter_mut() {
                if let rosu_map::section::hit_objects::HitObjectKind::Slider(s) = &mut h.kind {
                    let d = s.path.curve().dist();
                    if d.is_nan() {
                        st.inc("probe.slider-with-NaN-curve-distance");
                    } else if d.is_infinite() {
                        st.inc("probe.slider-with-infinite-curve-distance");
                    }
                }
            }
        }
        let mut out = Vec::new();
        if let Err(e) = map.encode(&mut out) {
            return Err(Violation::new("C01/encode-failed", "encode-err", format!("encode into a Vec returned Err({e}) for a map obtained by decoding")));
        }
        if let Err(e) = std::str::from_utf8(&out) {
            return Err(Violation::new("C01/encode-not-utf8", "not-utf8", format!("encoder output is not valid UTF-8: {e}")));
        }
        st.add("steps.writer_calls", 1);
        // the same map through a sink that accepts only a few bytes per call and interrupts now and then: the text that
        // arrives must be the same complete, valid UTF-8 text (no writer failure is involved)
        if out.len() <= 200_000 && (plan.idx % 3 == 0 || plan.scen == "first-line") {
            let mut map3 = Beatmap::decode(data).map_err(|e| Violation::new("C01/error-without-io-failure", "err", e.to_string()))?;
            let accept = 1 + (plan.idx % 7) as u32;
            let eintr: Vec<u32> = (0..8).map(|k| (k * 37 + plan.idx % 11) as u32).collect();
            let (sink, state) = crate::simio::SimWriter::new(vec![accept, accept + 2], eintr, None, None, out.len() * 2 + 64);
            let r = map3.encode(sink);
            let s = state.borrow();
            st.inc("probe.encode-through-short-writing-sink");
            if let Err(e) = r {
                return Err(Violation::new("C01/encode-failed", "short-write-sink", format!("encode into a sink that accepts {accept} bytes per call returned Err({e}) although the sink raised no error")));
            }
            if s.data != out {
                let at = s.data.iter().zip(out.iter()).position(|(a, b)| a != b).unwrap_or(s.data.len().min(out.len()));
                let class = if std::str::from_utf8(&s.data).is_err() { "C01/encode-not-utf8" } else { "C01/encode-nondeterministic" };
                return Err(Violation::new(class, "short-write-sink", format!("through a sink accepting {accept} bytes per call the encoder delivered {} bytes, into a Vec {}; first difference at {at}", s.data.len(), out.len())));
            }
        }
        // the same map into a fixed-size sink that is full after `cap` bytes (what `&mut [u8]` does: Ok(0) from then on):
        // the encoder must come back — with an error — wherever the space runs out
        if !out.is_empty() && out.len() <= 200_000 && plan.idx % 4 == 1 {
            let mut map4 = Beatmap::decode(data).map_err(|e| Violation::new("C01/error-without-io-failure", "err", e.to_string()))?;
            let cap = ((plan.idx / 4).wrapping_mul(2_654_435_761) % out.len() as u64) as usize;
            let mut buf = vec![0u8; cap];
            st.inc("probe.encode-into-full-fixed-size-sink");
            if map4.encode(&mut buf[..]).is_ok() {
                return Err(Violation::new("C01/encode-failed", "full-sink", format!("encode into a {cap}-byte slice returned Ok although the text has {} bytes", out.len())));
            }
            if buf[..] != out[..cap] {
                return Err(Violation::new("C01/encode-nondeterministic", "full-sink", format!("the {cap} bytes that fitted into a fixed-size sink are not the first {cap} bytes of the text")));
            }
        }
        let mut map2 = Beatmap::decode(data).map_err(|e| Violation::new("C01/error-without-io-failure", "err", e.to_string()))?;
        match map2.encode_to_string() {
            Ok(s) => {
                if s.as_bytes() != out.as_slice() {
                    return Err(Violation::new("C01/encode-nondeterministic", "encode-differs", "encode_to_string and encode into a Vec produced different text for the same decoded map"));
                }
            }
            Err(e) => return Err(Violation::new("C01/encode-failed", "encode-err", format!("encode_to_string returned Err({e})"))),
        }
        if let Err(e) = Beatmap::decode(&out[..]) {
            return Err(Violation::new("C01/redecode-failed", "redecode-err", format!("decoding the encoder's own output returned Err({e})")));
        }
        Ok(())
    }
    fn nontrivial(&self, plan: &Plan) -> bool {
        !plan.faults.is_empty() || plan.scen.starts_with("noise") || plan.scen == "hostile-geometry" || plan.scen == "repetition" || plan.scen == "giant-line" || (plan.scen == "short-prefix" && plan.data.len() >= 2) || plan.scen == "first-line"
    }
    fn reach_probes(&self) -> Vec<&'static str> {
        vec![
            "fired.S1-truncate",
            "fired.S2-bitflip",
            "fired.S2-overwrite",
            "fired.S2-insert",
            "fired.S3-torn-splice",
            "fired.S4-lost-zeroed-duplicated-block",
            "fired.S6-invalid-sequence",
            "fired.L1-record-corrupted",
            "fired.L2-record-dropped",
            "fired.L3-record-duplicated",
            "fired.L4-records-reordered",
            "fired.L5-noise-record",
            "knob.encoding.utf16le",
            "knob.encoding.utf16be",
            "knob.encoding.utf8-bom",
            "knob.mode.taiko",
            "knob.mode.catch",
            "knob.mode.mania",
            "probe.decoded-map-has-hit-objects",
            "family.workload-only.uniform-noise",
            "family.workload-only.hostile-slider-geometry",
            "probe.slider-with-NaN-curve-distance",
        ]
    }
}
