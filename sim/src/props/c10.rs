//! C10 — text encoding is transparent.
//! (a) every Unicode scalar value as metadata content, identical result in all four encodings (exhaustive, batched);
//! (b) bundled / generated texts: identical fingerprint across the four encodings, under random delivery;
//! (c) corrupted storage (invalid UTF-8, lone surrogates, odd tails, truncated UTF-16): result equals decoding the
//!     `std` lossy conversion of the payload (BOM re-attached), which also proves containment to one line.

use crate::corpus::{encode_text, file_text, gen_osu, model_text, sniff, storage_fault, Corpus, Enc, ENCS};
use crate::engine::{Scenario, Stats, Tier, Violation};
use crate::json::J;
use crate::plan::Plan;
use crate::probe::{from_bytes_fp, Dec};
use crate::rng::Rng;
use crate::transport::{decode_via, plan_transport};
use std::sync::Arc;

pub struct C10 {
    pub corpus: Arc<Corpus>,
    trunc_cum: Vec<u64>,
}

const SCALARS_PER_PLAN: u64 = 64;
/// long lines of multi-unit characters at every small offset: a multi-unit character straddles every internal block
/// boundary (any power-of-two index) for at least one offset
const STRADDLE_PLANS: u64 = 8 * 5 + SHORT_TEXTS;
/// every text of length <= 4 over {NUL, 'o', '[', LF, U+00E9, U+4E0A, CR, U+0D0A} in front of a small file, in the four
/// encodings (U+0D0A / U+4E0A: code units whose bytes are CR / LF bytes)
const SHORT_TEXTS: u64 = 1 + 8 + 64 + 512 + 4096;
/// every sequence of 1..=5 code units over {high, low, 'a', highest high, lowest low, LF} inside a metadata value, as
/// UTF-16LE and UTF-16BE: the surrogate pairing grammar, enumerated
const UNIT_SEQS: u64 = (6 + 36 + 216 + 1296 + 7776) * 2;
const UNIT_ALPHA: [u16; 6] = [0xD83D, 0xDE00, 0x0061, 0xDBFF, 0xDC00, 0x000A];
const N_SCALARS: u64 = 0x110000;
// sizes (MiB as UTF-8) of the texts decoded through from_path in all four encodings
const GIANT_TEXTS: [i64; 4] = [3, 5, 9, 12];

impl C10 {
    pub fn new(corpus: Arc<Corpus>) -> C10 {
        // truncation sweep layout (thorough): every length of the UTF-16LE and UTF-16BE transcodings of each small file
        let mut cum = 0u64;
        let mut trunc_cum = Vec::new();
        for &f in &corpus.small {
            let n = encode_text(&file_text(&corpus.files[f].1), Enc::Utf16Le).len() as u64;
            cum += (n + 1) * 2;
            trunc_cum.push(cum);
        }
        C10 { corpus, trunc_cum }
    }
    fn sweep_plans(&self) -> u64 {
        N_SCALARS.div_ceil(SCALARS_PER_PLAN) + STRADDLE_PLANS
    }
    fn trunc_plans(&self, tier: Tier) -> u64 {
        match tier {
            Tier::Quick => 0,
            Tier::Thorough => self.trunc_cum.last().copied().unwrap_or(0),
        }
    }
}

fn sig_for(data: &[u8]) -> &'static str {
    let (enc, skip) = sniff(data);
    if matches!(enc, Enc::Utf16Le | Enc::Utf16Be) {
        let p = &data[skip..];
        if enc == Enc::Utf16Le && p.len() % 2 == 1 && p.last() == Some(&0x0A) {
            return "utf16le-ends-after-LF-low-byte";
        }
        let le = enc == Enc::Utf16Le;
        for c in p.chunks_exact(2) {
            let u = if le { u16::from_le_bytes([c[0], c[1]]) } else { u16::from_be_bytes([c[0], c[1]]) };
            if u != 0x000A && (c[0] == 0x0A || c[1] == 0x0A) {
                return "utf16-code-unit-containing-0x0A";
            }
        }
    }
    "encoding-dependent"
}

impl Scenario for C10 {
    fn id(&self) -> &'static str {
        "C10"
    }
    fn level(&self) -> &'static str {
        "exploration"
    }
    fn rule(&self) -> String {
        "Three families. scalar-sweep: all 1,114,112 code points (surrogates skipped; 64 per plan) as `Title:a<c>b` / `Artist:<c>` metadata, decoded in UTF-8, UTF-8+BOM, UTF-16LE+BOM, UTF-16BE+BOM: all four results identical (exhaustive over single scalars in both tiers). equiv: bundled and generated texts (non-ASCII metadata) in the four encodings under one random delivery schedule, random decoder: identical fingerprints. corrupt: storage with injected invalid UTF-8, lone surrogates, odd tail bytes or UTF-16 truncation (every truncation length of every small file's UTF-16 transcodings in the thorough tier): result == decode(UTF-8 BOM + std lossy conversion of the payload). Also enumerated: every sequence of <= 5 UTF-16 code units over {high, low, highest high, lowest low, 'a', LF} in LE and BE against the std lossy conversion; whole lines of CR/LF/NUL-byte characters. Round 8: lines longer than 64 KiB in only some encodings; tricky-text corpus files. Round 10: texts beginning with U+FEFF (three BOM-marked encodings); bursts of invalid bytes. Round 13: thousands of leading blank lines. After round 13: texts of 3, 5, 9 and 12 MiB (twice that as UTF-16) through from_path on the real file system in all four encodings, both tiers. distinct_nontrivial = distinct plan hashes that are not plain-ASCII UTF-8 without BOM.".into()
    }
    fn assumptions(&self) -> Vec<String> {
        vec![
            "std::String::from_utf8_lossy and char::decode_utf16 are the lossy-conversion reference; the BOM is re-attached before the reference decode so a second U+FEFF in the payload is not sniffed away".into(),
            "because neither an invalid UTF-8 sequence nor a surrogate pair can span an LF, equality with the whole-payload lossy conversion implies containment to the line".into(),
            "the scalar sweep is exhaustive over single scalars only, not over strings".into(),
        ]
    }
    fn components(&self) -> J {
        J::obj().with("real", J::Arr(vec![J::str("reader::{Decoder, Encoding, U16 iterators}, driver, section parsers")])).with("stub", J::Arr(vec![J::str("byte source SimReader in the equiv family")]))
    }
    fn total_runs(&self, tier: Tier) -> u64 {
        self.sweep_plans()
            + self.trunc_plans(tier)
            + UNIT_SEQS
            + GIANT_TEXTS.len() as u64
            + match tier {
                Tier::Quick => 60_000,
                Tier::Thorough => 4_000_000,
            }
    }
    fn plan(&self, seed: u64, idx: u64, tier: Tier) -> Plan {
        let sw = self.sweep_plans();
        if idx + GIANT_TEXTS.len() as u64 >= self.total_runs(tier) {
            // both tiers (the four of them cost under a second): texts of several MiB (assembled at execution time from a filler size and a small tail, so
            // that the plan stays small) through the real file system — the UTF-16 flavours of the same text are twice as
            // large, so that a limit counted in bytes bites in some encodings only
            let k = (self.total_runs(tier) - 1 - idx) as usize;
            let mut p = Plan::new("C10", "equiv", seed, idx);
            p.set("giant_mib", GIANT_TEXTS[k]);
            p.set("dec", 0);
            p.set("t", crate::transport::T_FROM_PATH);
            p.data = "[Metadata]\nTitle:the very end \u{4E0A}\u{E9}\nArtist:\u{1F600}\n[HitObjects]\n256,192,1000,1,0\n100,100,2000,2,0,L|200:100,1,100\n".as_bytes().to_vec();
            p.faults.push("content-text-of-several-MiB".into());
            p.note = "giant-text".into();
            return p;
        }
        if idx >= 40 && idx < STRADDLE_PLANS {
            let mut k = idx - 40;
            let alpha = ['\0', 'o', '[', '\n', '\u{E9}', '\u{4E0A}', '\r', '\u{D0A}'];
            let mut len = 0u32;
            loop {
                let c = 8u64.pow(len);
                if k < c {
                    break;
                }
                k -= c;
                len += 1;
            }
            let mut t = String::new();
            for _ in 0..len {
                t.push(alpha[(k % 8) as usize]);
                k /= 8;
            }
            t.push_str("su file format v9\n[Metadata]\nTitle:t\n");
            let mut p = Plan::new("C10", "equiv", seed, idx);
            p.data = t.into_bytes();
            // always the full decoder: a decoder chosen by idx % 9 aliases with the base-6 enumeration (texts starting with
            // NUL only ever met decoders 2, 5, 8 and a BOM-table change went unnoticed)
            p.set("dec", 0);
            p.set("t", crate::transport::T_SLICE);
            p.note = "short-text".into();
            return p;
        }
        if idx < 40 {
            let k = (idx % 8) as usize;
            let unit = ["\u{1F600}", "\u{E9}", "\u{4E0A}", "\u{10FFFF}\u{A0A}", "a\u{1F3FF}"][(idx / 8) as usize];
            let mut t = String::from("osu file format v14\n\n[Metadata]\nTags:");
            t.push_str(&"a".repeat(k));
            t.push_str(&unit.repeat(5000));
            t.push_str("\nTitle:after\n");
            let mut p = Plan::new("C10", "equiv", seed, idx);
            p.data = t.into_bytes();
            p.set("dec", 3);
            p.set("t", crate::transport::T_SLICE);
            p.note = "block-straddle".into();
            return p;
        }
        if idx < sw {
            let idx = idx - STRADDLE_PLANS;
            let mut p = Plan::new("C10", "scalar-sweep", seed, idx + STRADDLE_PLANS);
            p.set("from", (idx * SCALARS_PER_PLAN) as i64);
            p.set("count", SCALARS_PER_PLAN as i64);
            return p;
        }
        let tr = self.trunc_plans(tier);
        if idx < sw + tr {
            let i = idx - sw;
            let k = self.trunc_cum.partition_point(|&c| c <= i);
            let base = if k == 0 { 0 } else { self.trunc_cum[k - 1] };
            let j = i - base;
            let f = self.corpus.small[k];
            let enc = if j % 2 == 0 { Enc::Utf16Le } else { Enc::Utf16Be };
            let mut d = encode_text(&file_text(&self.corpus.files[f].1), enc);
            d.truncate((j / 2) as usize);
            let mut p = Plan::new("C10", "corrupt", seed, idx);
            p.data = d;
            p.set("dec", (j % 9) as i64);
            p.faults.push("S1-truncate-utf16".into());
            p.note = format!("{} as {} cut at {}", self.corpus.files[f].0, enc.name(), j / 2);
            return p;
        }
        if idx < sw + tr + UNIT_SEQS {
            let i = idx - sw - tr;
            let le = i % 2 == 0;
            let mut k = i / 2;
            let mut len = 1u32;
            loop {
                let c = 6u64.pow(len);
                if k < c {
                    break;
                }
                k -= c;
                len += 1;
            }
            let mut units: Vec<u16> = "osu file format v14\n[Metadata]\nTitle:x".encode_utf16().collect();
            for _ in 0..len {
                units.push(UNIT_ALPHA[(k % 6) as usize]);
                k /= 6;
            }
            units.extend("y\nArtist:z\n".encode_utf16());
            let mut d: Vec<u8> = if le { vec![0xFF, 0xFE] } else { vec![0xFE, 0xFF] };
            for u in units {
                d.extend_from_slice(&if le { u.to_le_bytes() } else { u.to_be_bytes() });
            }
            let mut p = Plan::new("C10", "corrupt", seed, idx);
            p.data = d;
            p.set("dec", 3);
            p.faults.push("S6-surrogate-grammar".into());
            p.note = "unit-sequence".into();
            return p;
        }
        let mut rng = Rng::for_run(seed, "C10", idx);
        let text = if rng.chance(1, 2) {
            let f = self.corpus.pick(&mut rng, 100);
            file_text(&self.corpus.files[f].1)
        } else {
            gen_osu(&mut rng)
        };
        if rng.chance(1, 2) {
            let mut p = Plan::new("C10", "equiv", seed, idx);
            // plan.data holds the text as UTF-8; the four encodings are derived at execution (pure function)
            let mut t = text;
            if rng.chance(1, 3) {
                // sprinkle characters whose UTF-16 code units contain 0x0A / 0x0D / 0x00 bytes or need surrogate pairs
                let extra = ["\u{4E0A}", "\u{010A}", "\u{0A0A}", "\u{0D0A}", "\u{1F600}", "\u{10000A}", "\u{0100}", "\u{FEFF}", "\u{FFFD}", "\u{2028}", "\u{0085}", "\u{4E00}", "\u{0A00}", "\u{0A41}", "\u{0D00}", "\u{000B}", "\u{00A0}", "\u{3000}"];
                let pos: Vec<usize> = t.char_indices().map(|(i, _)| i).collect();
                if !pos.is_empty() {
                    for _ in 0..1 + rng.below(4) {
                        let at = *rng.pick(&pos);
                        if t.is_char_boundary(at) {
                            // runs of 1..4 tricky characters, so that their bytes become neighbours across code-unit boundaries
                            let run: String = (0..1 + rng.below(4)).map(|_| *rng.pick(&extra)).collect();
                            t.insert_str(at, &run);
                        }
                    }
                }
            }
            if rng.chance(1, 6) {
                // whole lines made of nothing but characters whose code units consist of CR / LF / NUL bytes — before the
                // version line, between records, or last
                let only = ["\u{0D0A}", "\u{0A0A}", "\u{0D00}", "\u{0A00}", "\u{0A0D}", "\u{0D0D}", "\u{000D}", "\u{0000}", "\u{000A}"];
                for _ in 0..1 + rng.below(2) {
                    let run: String = (0..1 + rng.below(3)).map(|_| *rng.pick(&only)).collect();
                    let starts: Vec<usize> = std::iter::once(0).chain(t.match_indices('\n').map(|(i, _)| i + 1)).collect();
                    let at = if rng.chance(1, 2) { 0 } else { *rng.pick(&starts) };
                    let nl = *rng.pick(&["\n", "\r\n"]);
                    t.insert_str(at, &format!("{run}{nl}"));
                    if at == 0 && rng.chance(1, 2) {
                        t.insert_str(0, nl); // ... after a leading empty line
                    }
                }
            }
            if rng.chance(1, 30) {
                // thousands of blank or white-space-only lines in front (a limit counted in bytes bites in UTF-16 first)
                let n = *rng.pick(&[600usize, 1100, 1500, 2500, 3000, 5000, 9000]);
                let unit = *rng.pick(&["\n", "\r\n", " \n"]);
                t.insert_str(0, &unit.repeat(n / unit.len().max(1)));
            }
            if rng.chance(1, 25) {
                // the text itself begins with U+FEFF (one or two of them), in front of whatever came first
                t.insert_str(0, if rng.chance(1, 3) { "\u{feff}\u{feff}" } else { "\u{feff}" });
            }
            if rng.chance(1, 40) {
                // a line that is longer than 64 KiB in some encodings and shorter in others
                let unit = *rng.pick(&["x", "\u{4E00}", "\u{E9}", "ab ", "\u{1F600}"]);
                let n = *rng.pick(&[40_000usize, 30_000, 33_000, 22_000, 66_000]) / unit.chars().count();
                let at = t.find('\n').map_or(t.len(), |i| i + 1);
                t.insert_str(at, &format!("Tags:{}\n", unit.repeat(n)));
            }
            p.data = t.into_bytes();
            p.set("dec", rng.below(9) as i64);
            // every entry point: simulated readers, slices, Cursor, from_str (for the UTF-8 flavours), from_path, Chain
            plan_transport(&mut rng, &mut p, false);
            // schedules are planned against the UTF-8 length; UTF-16 variants simply cycle / use the tail
            p
        } else {
            let mut p = Plan::new("C10", "corrupt", seed, idx);
            let enc = *rng.pick(&ENCS);
            let mut d = encode_text(&text, enc);
            let n = 1 + rng.below(3);
            for _ in 0..n {
                let allow: &[&'static str] = match enc {
                    Enc::Utf8 | Enc::Utf8Bom => &["S6-invalid", "S6-invalid", "S2-bitflip", "S2-overwrite"],
                    _ => &["S6-invalid", "S6-invalid", "S1-truncate", "S2-bitflip"],
                };
                let k = storage_fault(&mut rng, &mut d, &self.corpus, allow);
                p.faults.push(k.to_string());
            }
            p.data = d;
            p.set("dec", rng.below(9) as i64);
            p
        }
    }
    fn execute(&self, plan: &Plan, st: &mut Stats) -> Result<(), Violation> {
        match plan.scen.as_str() {
            "scalar-sweep" => {
                let from = plan.get("from").max(0) as u32;
                let count = plan.get("count").max(0) as u32;
                let mut acc = 0u64;
                for cp in from..from.saturating_add(count) {
                    let Some(c) = char::from_u32(cp) else { continue };
                    st.inc("steps.scalars");
                    // byte-neighbour contexts: the scalar next to code units whose low / high byte is 0x00, 0x0A or 0x0D
                    let text = format!("osu file format v14\n\n[Metadata]\n{c}\n{c}x:y\nTitle:a{c}b\nArtist:{c}\nCreator:\u{100}{c}\u{A01}\nVersion:\u{A0A}{c}\u{10A}\nTitleUnicode:\u{4E0A}{c}\u{4E00}\nTags:\u{D00}{c}{c}\u{D}x\u{A00}\nSource:z{c}");
                    let mut first = None;
                    for enc in ENCS {
                        let b = encode_text(&text, enc);
                        let r = from_bytes_fp(Dec::Metadata, &b).map_err(|e| e.kind());
                        match &first {
                            None => first = Some(r),
                            Some(f) => {
                                if *f != r {
                                    return Err(Violation::new("C10/encodings-disagree", sig_for(&b), format!("U+{cp:04X} as metadata content: {} gives {:?}, utf8 gives {:?}", enc.name(), r, f)));
                                }
                            }
                        }
                    }
                    if let Some(Ok(f)) = first {
                        acc ^= f.0.rotate_left(cp % 61);
                    }
                    // a UTF-8 file that ends in the middle of this character (every cut inside it): the result must be that of
                    // the std lossy conversion (one U+FFFD for the incomplete sequence)
                    let clen = c.len_utf8();
                    if clen >= 2 {
                        let full = text.as_bytes();
                        for cut in 1..clen {
                            let b = &full[..full.len() - cut];
                            let got = from_bytes_fp(Dec::Metadata, b).map_err(|e| e.kind());
                            let mut reference = vec![0xEF, 0xBB, 0xBF];
                            reference.extend_from_slice(model_text(b).as_bytes());
                            let want = from_bytes_fp(Dec::Metadata, &reference).map_err(|e| e.kind());
                            if got != want {
                                return Err(Violation::new(if got.is_err() { "C10/decode-error" } else { "C10/lossy-mismatch" }, sig_for(b), format!("a UTF-8 file ending {cut} byte(s) short of the end of U+{cp:04X}: {:?}, the std lossy conversion of the payload gives {:?}", got, want)));
                            }
                        }
                    }
                    // odd tails: the scalar is the last complete code unit of the file and a dangling byte follows — the
                    // result must be that of the std lossy conversion (which drops the dangling byte only)
                    for enc in [Enc::Utf16Le, Enc::Utf16Be] {
                        for dangling in [0x00u8, 0x0A, 0x0D] {
                            let mut b = encode_text(&text, enc);
                            b.push(dangling);
                            let got = from_bytes_fp(Dec::Metadata, &b).map_err(|e| e.kind());
                            let mut reference = vec![0xEF, 0xBB, 0xBF];
                            reference.extend_from_slice(model_text(&b).as_bytes());
                            let want = from_bytes_fp(Dec::Metadata, &reference).map_err(|e| e.kind());
                            if got != want {
                                return Err(Violation::new(if got.is_err() { "C10/decode-error" } else { "C10/lossy-mismatch" }, sig_for(&b), format!("U+{cp:04X} as the last character of a {} file followed by the dangling byte {dangling:#04x}: {:?}, the std lossy conversion of the payload gives {:?}", enc.name(), got, want)));
                            }
                        }
                    }
                }
                st.outcome = acc;
                Ok(())
            }
            "equiv" => {
                let assembled;
                let plan = if plan.has("giant_mib") {
                    let mib = plan.get("giant_mib").clamp(1, 64) as usize;
                    let mut d = Vec::with_capacity(mib * 1_048_576 + plan.data.len() + 2048);
                    d.extend_from_slice(b"osu file format v14\n\n[Events]\n");
                    let filler = format!("//{}\n", "filler ".repeat(146));
                    while d.len() < mib * 1_048_576 {
                        d.extend_from_slice(filler.as_bytes());
                    }
                    d.extend_from_slice(&plan.data);
                    let mut q = plan.clone();
                    q.data = d;
                    st.inc("probe.text-of-several-MiB");
                    assembled = q;
                    &assembled
                } else {
                    plan
                };
                let Ok(text) = std::str::from_utf8(&plan.data) else { return Ok(()) };
                // a text that itself begins with U+FEFF cannot be told from a BOM when stored as plain UTF-8: such texts are
                // compared across the three BOM-marked encodings only (every second one keeps its U+FEFF, the others lose it)
                let keep_feff = text.starts_with('\u{feff}') && plan.idx % 2 == 0;
                let text = if keep_feff { text } else { text.trim_start_matches('\u{feff}') };
                let dec = Dec::from_i(plan.get("dec"));
                let mut first: Option<(Enc, crate::transport::Outcome)> = None;
                for enc in ENCS {
                    if keep_feff && enc == Enc::Utf8 {
                        continue;
                    }
                    let mut q = plan.clone();
                    q.data = encode_text(text, enc);
                    let via = decode_via(&q, dec, st);
                    if let Some(rs) = &via.rs {
                        if rs.budget_exceeded {
                            return Err(Violation::new("C10/livelock", "poll-budget", format!("{} polls", rs.polls)));
                        }
                    }
                    match &first {
                        None => {
                            if let Ok(f) = via.out {
                                st.outcome = f.0;
                            }
                            first = Some((enc, via.out));
                        }
                        Some((e0, f)) => {
                            if *f != via.out {
                                return Err(Violation::new("C10/encodings-disagree", sig_for(&q.data), format!("decoder {}: {} gives {:?} but {} gives {:?} for the same text ({} chars)", dec.name(), enc.name(), via.out, e0.name(), f, text.chars().count())));
                            }
                        }
                    }
                }
                Ok(())
            }
            _ => {
                let dec = Dec::from_i(plan.get("dec"));
                let got = from_bytes_fp(dec, &plan.data).map_err(|e| e.kind());
                let mut reference = vec![0xEF, 0xBB, 0xBF];
                reference.extend_from_slice(model_text(&plan.data).as_bytes());
                let want = from_bytes_fp(dec, &reference).map_err(|e| e.kind());
                let (enc, skip) = sniff(&plan.data);
                if std::str::from_utf8(&plan.data[skip..]).is_err() && matches!(enc, Enc::Utf8 | Enc::Utf8Bom) {
                    st.inc("probe.lossy-utf8-path-taken");
                }
                if matches!(enc, Enc::Utf16Le | Enc::Utf16Be) {
                    if (plan.data.len() - skip) % 2 == 1 {
                        st.inc("probe.utf16-odd-tail");
                    }
                    let le = enc == Enc::Utf16Le;
                    if char::decode_utf16(plan.data[skip..].chunks_exact(2).map(|c| if le { u16::from_le_bytes([c[0], c[1]]) } else { u16::from_be_bytes([c[0], c[1]]) })).any(|r| r.is_err()) {
                        st.inc("probe.utf16-lone-surrogate");
                    }
                }
                if let Ok(f) = got {
                    st.outcome = f.0;
                }
                if got != want {
                    let class = if got.is_err() { "C10/decode-error" } else { "C10/lossy-mismatch" };
                    return Err(Violation::new(class, sig_for(&plan.data), format!("decoder {} on {} storage ({} bytes): {:?}, but decoding the std lossy conversion of the same payload gives {:?}", dec.name(), enc.name(), plan.data.len(), got, want)));
                }
                Ok(())
            }
        }
    }
    fn nontrivial(&self, plan: &Plan) -> bool {
        match plan.scen.as_str() {
            "scalar-sweep" => plan.get("from") >= 128,
            "equiv" => true,
            _ => !plan.faults.is_empty(),
        }
    }
    fn reach_probes(&self) -> Vec<&'static str> {
        vec!["steps.scalars", "probe.lossy-utf8-path-taken", "probe.utf16-odd-tail", "probe.utf16-lone-surrogate", "fired.R1-chunking(runs-with>=2-chunks)"]
    }
    fn shrink_candidates<'a>(&'a self, plan: &'a Plan) -> Box<dyn Iterator<Item = Plan> + 'a> {
        if plan.scen == "scalar-sweep" {
            let from = plan.get("from");
            let count = plan.get("count");
            return Box::new((0..count).map(move |i| {
                let mut c = plan.clone();
                c.set("from", from + i);
                c.set("count", 1);
                c
            }));
        }
        crate::shrink::generic_candidates(plan)
    }
}
