//! One scenario per claimed property.
use crate::corpus::Corpus;
use crate::engine::Scenario;
use std::sync::Arc;

pub mod c01;
pub mod c05;
pub mod c06;
pub mod c08;
pub mod c09;
pub mod c10;
pub mod c12;
pub mod c13;
pub mod c18;
pub mod c20;

pub const CLAIMED: &[&str] = &["C01", "C05", "C06", "C08", "C09", "C10", "C12", "C13", "C18", "C20"];

pub fn make(id: &str, corpus: Arc<Corpus>) -> Option<Box<dyn Scenario>> {
    Some(match id {
        "C01" => Box::new(c01::C01::new(corpus)),
        "C05" => Box::new(c05::C05 { corpus }),
        "C06" => Box::new(c06::C06 { corpus }),
        "C08" => Box::new(c08::C08 { corpus }),
        "C09" => Box::new(c09::C09::new(corpus)),
        "C10" => Box::new(c10::C10::new(corpus)),
        "C12" => Box::new(c12::C12::new(corpus)),
        "C13" => Box::new(c13::C13),
        "C18" => Box::new(c18::C18 { corpus }),
        "C20" => Box::new(c20::C20 { corpus }),
        _ => return None,
    })
}

/// Scenario instance that can only execute given plans (no corpus needed).
pub fn make_exec_only(id: &str) -> Option<Box<dyn Scenario>> {
    match id {
        "C01" => Some(Box::new(c01::C01::exec_only())),
        _ => None,
    }
}
