//! One scenario per claimed property.
use crate::corpus::Corpus;
use crate::engine::Scenario;
use std::sync::Arc;

pub mod c08;
pub mod c09;

pub const CLAIMED: &[&str] = &["C08", "C09"];

pub fn make(id: &str, corpus: Arc<Corpus>) -> Option<Box<dyn Scenario>> {
    Some(match id {
        "C08" => Box::new(c08::C08 { corpus }),
        "C09" => Box::new(c09::C09::new(corpus)),
        _ => return None,
    })
}
