//! C06 — a rejected line has no effect on the result.
//! Full `decode` through `Probe<D>` (forwards to the real parsers, records each line's verdict); for each rejected
//! line the result must equal that of the same file without that line (self-differential, bit-exact).

use crate::corpus::{corrupt_record, corrupt_record_partial, file_text, gen_osu, Corpus};
use crate::engine::{Scenario, Stats, Tier, Violation};
use crate::json::J;
use crate::models::router::route_text;
use crate::plan::Plan;
use crate::probe::{fp, Fp, Probe};
use crate::rng::Rng;
use rosu_map::section::{hit_objects::HitObjects, timing_points::TimingPoints};
use rosu_map::{Beatmap, DecodeBeatmap};
use std::sync::Arc;

pub struct C06 {
    pub corpus: Arc<Corpus>,
}

const MAX_REMOVALS: usize = 12;

fn section_ranges(lines: &[String]) -> Vec<(usize, &'static str)> {
    // (line index, section) for every record line
    let mut cur = None;
    let mut out = Vec::new();
    for (i, l) in lines.iter().enumerate() {
        let t = l.trim_end();
        if let Some(s) = crate::models::router::section_of(t) {
            cur = Some(s);
            continue;
        }
        if let Some(s) = cur {
            if !t.is_empty() && !t.trim_start().starts_with("//") {
                out.push((i, s));
            }
        }
    }
    out
}

impl Scenario for C06 {
    fn id(&self) -> &'static str {
        "C06"
    }
    fn level(&self) -> &'static str {
        "exploration"
    }
    fn rule(&self) -> String {
        "Plans = bundled or generated file with 1..4 record faults (L1: field deleted / swapped / replaced by a boundary token / garbage appended / record cut short / corruption deep inside a multi-segment slider path / 'partial progress': an earlier field changed to another valid value AND a later field broken), biased to land right before a record of the same kind. Decoded through Probe<Beatmap|HitObjects|TimingPoints>; for each of up to 12 rejected lines per run the file is decoded again without that line and the two values must be bit-identical. distinct_nontrivial = distinct plan hashes in which at least one line was rejected (counted as the number of such runs' distinct hashes; measured at execution via counter 'runs-with-rejected-line').".into()
    }
    fn assumptions(&self) -> Vec<String> {
        vec![
            "UTF-8 files only (encodings are C10); the delivery-ordinal -> file-line map comes from the C05 reference router and is sanity-checked against the probe's recorded strings (a mismatch is a harness error, never a verdict)".into(),
            "fingerprint = hash of the Debug rendering".into(),
        ]
    }
    fn components(&self) -> J {
        J::obj()
            .with("real", J::Arr(vec![J::str("driver, line reader, all section parsers and state-to-value conversions of Beatmap / HitObjects / TimingPoints")]))
            .with("stub", J::Arr(vec![J::str("none on the decode path; Probe<D> is a pass-through that only records verdicts")]))
    }
    fn total_runs(&self, tier: Tier) -> u64 {
        match tier {
            Tier::Quick => 120_000,
            Tier::Thorough => 6_000_000,
        }
    }
    fn plan(&self, seed: u64, idx: u64, _tier: Tier) -> Plan {
        let mut rng = Rng::for_run(seed, "C06", idx);
        let mut p = Plan::new("C06", "record-faults", seed, idx);
        let text = if rng.chance(3, 4) {
            let f = self.corpus.pick(&mut rng, 150);
            p.set("file", f as i64);
            p.note = self.corpus.files[f].0.clone();
            file_text(&self.corpus.files[f].1)
        } else {
            p.note = "generated".into();
            gen_osu(&mut rng)
        };
        let text = text.replace("\r\n", "\n");
        let mut lines: Vec<String> = text.split('\n').map(str::to_string).collect();
        let n = 1 + rng.below(4);
        for _ in 0..n {
            let recs = section_ranges(&lines);
            if recs.is_empty() {
                break;
            }
            // bias: sections whose parsers hold cross-line state
            let pickrec = |rng: &mut Rng| -> (usize, &'static str) {
                if rng.chance(1, 3) {
                    // uniform over sections that have records
                    let mut secs: Vec<&'static str> = recs.iter().map(|r| r.1).collect();
                    secs.dedup();
                    let s = *rng.pick(&secs);
                    let of: Vec<(usize, &'static str)> = recs.iter().copied().filter(|r| r.1 == s).collect();
                    return *rng.pick(&of);
                }
                for _ in 0..3 {
                    let r = *rng.pick(&recs);
                    if matches!(r.1, "HitObjects" | "TimingPoints" | "Events" | "Difficulty") {
                        return r;
                    }
                }
                *rng.pick(&recs)
            };
            let (i, sec) = pickrec(&mut rng);
            let mut tries = 0;
            let c = loop {
                tries += 1;
                // prefer sliders inside HitObjects (multi-field, multi-segment)
                let src = if sec == "HitObjects" && rng.chance(2, 3) {
                    recs.iter().filter(|r| r.1 == "HitObjects" && lines[r.0].contains('|')).map(|r| r.0).nth(rng.below(4)).unwrap_or(i)
                } else {
                    i
                };
                let c = if rng.chance(2, 5) { corrupt_record_partial(&mut rng, lines[src].trim_end()) } else { None };
                if let Some(c) = c.or_else(|| corrupt_record(&mut rng, lines[src].trim_end())) {
                    break Some(c);
                }
                if tries > 4 {
                    break None;
                }
            };
            let Some(c) = c else { continue };
            p.faults.push(format!("L1-corrupt-{sec}"));
            match rng.below(4) {
                0 => lines[i] = c,             // replace
                1 => lines.insert(i + 1, c),   // right after the original
                _ => lines.insert(i, c),       // right before a record of the same kind (the observer)
            }
        }
        // L5: noise / header-like lines with trailing comments inside sections (their parsers reject them), and a
        // foreign section block (header, a possibly corrupted record of that section, header back) spliced into the
        // middle of another section — sections may repeat, so this is an ordinary history of lines
        for _ in 0..rng.below(3) {
            let recs = section_ranges(&lines);
            if recs.is_empty() {
                break;
            }
            let (i, sec) = *rng.pick(&recs);
            if rng.chance(1, 2) {
                lines.insert(i, rng.pick(crate::corpus::NOISE_LINES).to_string());
                p.faults.push("L5-noise".into());
            } else {
                let other: Vec<(usize, &'static str)> = recs.iter().copied().filter(|r| r.1 != sec).collect();
                if other.is_empty() {
                    continue;
                }
                let (j, osec) = *rng.pick(&other);
                let rec = lines[j].trim_end().to_string();
                let rec = if rng.chance(2, 3) { corrupt_record(&mut rng, &rec).unwrap_or(rec) } else { rec };
                let extra = match osec {
                    "General" => *rng.pick(&["Mode: 7", "Mode: x", "Mode:", "SampleSet: Wrong", "StackLeniency: NaN"]),
                    "Difficulty" => *rng.pick(&["ApproachRate: x", "SliderMultiplier: 1e39", "OverallDifficulty:"]),
                    _ => "",
                };
                let mut block = vec![format!("[{osec}]"), rec];
                if !extra.is_empty() {
                    block.push(extra.to_string());
                }
                block.push(format!("[{sec}]"));
                lines.splice(i..i, block);
                p.faults.push(format!("L5-foreign-section-block-{osec}-inside-{sec}"));
            }
        }
        if rng.chance(1, 40) {
            // a long run of consecutive rejected records (lengths around powers of two): "after N bad lines give up"
            // heuristics and counters that only successful lines reset
            let recs = section_ranges(&lines);
            if !recs.is_empty() {
                let (i, sec) = *rng.pick(&recs);
                let n = *rng.pick(&[8usize, 16, 31, 32, 33, 63, 64, 65, 100, 128, 129, 256]);
                let src = lines[i].trim_end().to_string();
                // half of the runs are uniform junk (rejected by every parser, so the run is really uninterrupted)
                let junk = rng.chance(1, 2);
                // in [HitObjects] a third of the runs are maximum-cost rejected sliders (9000 repeats; everything parses except the
                // last path segment, which is converted last): whatever a parser charges to a budget or counter before the line is known to be good
                let costly = sec == "HitObjects" && rng.chance(1, 6);
                let n = if costly { n.min(129) } else { n };
                let bad: Vec<String> = (0..n)
                    .map(|k| {
                        if costly {
                            format!("{},{},{},2,0,B|{}:{}|{}:{}|L|x:y,9000,100", k % 512, k % 384, 1000 + k, k % 300, k % 200, k % 100, k % 50)
                        } else if junk {
                            format!("?,?{k},?")
                        } else {
                            corrupt_record(&mut rng, &src).unwrap_or_else(|| format!("{src},x"))
                        }
                    })
                    .collect();
                lines.splice(i..i, bad);
                p.faults.push(format!("L1-run-of-{n}-corrupted-{sec}-records"));
            }
        }
        p.data = lines.join("\n").into_bytes();
        p.set("dec", *rng.pick(&[0i64, 0, 0, 1, 2]));
        p
    }
    fn execute(&self, plan: &Plan, st: &mut Stats) -> Result<(), Violation> {
        match plan.get("dec") {
            1 => run::<HitObjects>(plan, st, "HitObjects"),
            2 => run::<TimingPoints>(plan, st, "TimingPoints"),
            _ => run::<Beatmap>(plan, st, "Beatmap"),
        }
    }
    fn nontrivial(&self, plan: &Plan) -> bool {
        !plan.faults.is_empty()
    }
    fn reach_probes(&self) -> Vec<&'static str> {
        vec![
            "probe.runs-with-rejected-line",
            "probe.rejected.HitObjects",
            "probe.rejected.TimingPoints",
            "probe.rejected.Events",
            "probe.rejected.Colours",
            "probe.rejected.General",
            "probe.rejected.Difficulty",
            "probe.rejected.Editor",
            "probe.rejected-slider-after-complete-segment",
            "probe.rejected-line-followed-by-same-section-record",
        ]
    }
}

fn rej_name(s: &str) -> &'static str {
    match s {
        "HitObjects" => "probe.rejected.HitObjects",
        "TimingPoints" => "probe.rejected.TimingPoints",
        "Events" => "probe.rejected.Events",
        "Colours" => "probe.rejected.Colours",
        "General" => "probe.rejected.General",
        "Difficulty" => "probe.rejected.Difficulty",
        "Editor" => "probe.rejected.Editor",
        "Metadata" => "probe.rejected.Metadata",
        _ => "probe.rejected.other",
    }
}

fn run<D>(plan: &Plan, st: &mut Stats, name: &str) -> Result<(), Violation>
where
    D: DecodeBeatmap + std::fmt::Debug,
{
    let data = &plan.data[..];
    let text = match std::str::from_utf8(data) {
        Ok(t) => t,
        Err(_) => return Ok(()), // minimiser produced non-UTF-8: outside this scenario
    };
    if text.starts_with('\u{feff}') {
        return Ok(());
    }
    let p = Probe::<D>::decode(data).map_err(|e| Violation::new("C06/decode-error", "err", format!("decode failed without reader faults: {e}")))?;
    let base: Fp = fp(&p.inner);
    st.outcome = base.0;
    st.add("steps.lines_delivered", p.log.len() as u64);
    let routed = route_text(text);
    // sanity: the probe's delivery history must be the router's (else the line map is unusable → harness error, not a verdict)
    let lines: Vec<&str> = text.split('\n').collect();
    // delivery ordinal -> file line. Normally the reference router's map; if the real delivery history is not the
    // router's (a framing disagreement — C05's business), fall back to locating each delivered line by its text, in order
    let agree = routed.log.len() == p.log.len() && routed.log.iter().zip(&p.log).all(|(a, b)| a.0 == b.0 && a.1 == b.1);
    let line_of: Vec<Option<usize>> = if agree {
        routed.log.iter().map(|r| Some(r.2)).collect()
    } else {
        st.inc("probe.line-map-by-text-search");
        let mut from = 0usize;
        p.log
            .iter()
            .map(|(_, l, _)| {
                let hit = (from..lines.len()).find(|&i| lines[i].trim_end() == l.as_str());
                if let Some(i) = hit {
                    from = i + 1;
                }
                hit
            })
            .collect()
    };
    let rejected: Vec<usize> = p.log.iter().enumerate().filter(|(i, l)| l.2 && line_of[*i].is_some()).map(|(i, _)| i).collect();
    if rejected.is_empty() {
        return Ok(());
    }
    st.inc("probe.runs-with-rejected-line");
    // choose up to MAX_REMOVALS rejected lines, spread evenly (deterministic)
    let step = rejected.len().div_ceil(MAX_REMOVALS).max(1);
    for &k in rejected.iter().step_by(step) {
        let (sec, ref l, _) = p.log[k];
        st.inc(rej_name(sec));
        if sec == "HitObjects" && l.contains('|') {
            // rejected slider line whose path has >= 1 complete segment before a later letter-started segment
            let path = l.split(',').nth(5).unwrap_or("");
            let letters = path.split('|').filter(|t| t.chars().next().map_or(false, |c| c.is_ascii_alphabetic())).count();
            if letters >= 2 {
                st.inc("probe.rejected-slider-after-complete-segment");
            }
        }
        if p.log.get(k + 1).map_or(false, |n| n.0 == sec) {
            st.inc("probe.rejected-line-followed-by-same-section-record");
        }
        let Some(li) = line_of[k] else { continue };
        let without: String = lines.iter().enumerate().filter(|(i, _)| *i != li).map(|(_, l)| *l).collect::<Vec<_>>().join("\n");
        st.inc("steps.ops_applied");
        let w = D::decode(without.as_bytes()).map_err(|e| Violation::new("C06/decode-error", "err", format!("decode failed without reader faults: {e}")))?;
        let wf = fp(&w);
        if wf != base {
            let full = format!("{:?}", p.inner);
            let wo = format!("{w:?}");
            let at = full.bytes().zip(wo.bytes()).position(|(a, b)| a != b).unwrap_or(full.len().min(wo.len()));
            let ctx = |s: &str| {
                let (mut a, mut z) = (at.saturating_sub(80).min(s.len()), (at + 80).min(s.len()));
                while !s.is_char_boundary(a) {
                    a -= 1;
                }
                while !s.is_char_boundary(z) {
                    z += 1;
                }
                s[a..z].to_string()
            };
            let sig = if sec == "HitObjects" && l.contains('|') { "slider-path-residue" } else { "residue" };
            return Err(Violation::new(
                "C06/rejected-line-had-effect",
                sig,
                format!("decoder {name}: line {li} ({sec}) {l:?} was rejected by its parser, yet removing it changes the result.\n with   : …{}…\n without: …{}…", ctx(&full), ctx(&wo)),
            ));
        }
    }
    // Consequence by induction: removing the first half of the rejected lines (if removing one rejected line changed
    // whether another is rejected, that single removal would already have changed the result), then the first half of
    // what the shortened file still rejects, and so on, never changes the result. This is what exposes budgets,
    // counters and thresholds that no single line crosses — including ones that make later *valid* lines fail.
    if rejected.len() >= 2 {
        let mut cur: String = text.to_string();
        for _step in 0..9 {
            let pr = Probe::<D>::decode(cur.as_bytes()).map_err(|e| Violation::new("C06/decode-error", "err", format!("decode failed without reader faults: {e}")))?;
            if fp(&pr.inner) != base {
                return Err(Violation::new(
                    "C06/rejected-line-had-effect",
                    "collective",
                    format!("decoder {name}: after removing only lines that their parser had rejected (in halves, re-probing each time) the result differs from the original — rejected lines accumulate an effect (a budget, counter or threshold fed by lines that were reported as errors)"),
                ));
            }
            let cl: Vec<&str> = cur.split('\n').collect();
            let mut from = 0usize;
            let mut rej_lines: Vec<usize> = Vec::new();
            for (_, l, bad) in &pr.log {
                if let Some(i) = (from..cl.len()).find(|&i| cl[i].trim_end() == l.as_str()) {
                    from = i + 1;
                    if *bad {
                        rej_lines.push(i);
                    }
                }
            }
            if rej_lines.is_empty() {
                break;
            }
            st.inc("steps.ops_applied");
            st.inc("probe.rejected-lines-removed-in-halves");
            let take = rej_lines.len().div_ceil(2);
            let drop: std::collections::BTreeSet<usize> = rej_lines.into_iter().take(take).collect();
            cur = cl.iter().enumerate().filter(|(i, _)| !drop.contains(i)).map(|(_, l)| *l).collect::<Vec<_>>().join("\n");
        }
    }
    Ok(())
}
