//! C20 — slider event stream has the legacy structure and timing.
//! Real `SliderEventsIter` over ONE shared tick buffer that earlier iterators leave in arbitrary states (run to
//! completion, abandoned after j events, or polluted with foreign events), the way the encoder and downstream
//! crates use it. Each completed stream is checked against the eager reference (structure exact, numbers within
//! tolerance), ordering invariants, and a twin run on a fresh buffer (bit-exact).

use crate::engine::{Scenario, Stats, Tier, Violation};
use crate::json::J;
use crate::models::events::{check, Params};
use crate::plan::{Op, Plan};
use crate::rng::{Fnv, Rng};
use rosu_map::section::hit_objects::{SliderEvent, SliderEventType, SliderEventsIter};

pub struct C20;

static PAIRS: crate::engine::PairTable = crate::engine::PairTable::new(&["pollute", "abandon", "run"]);

const RATIOS: [f64; 11] = [0.0, 1e-3, 0.01, 0.1, 0.25, 1.0 / 3.0, 0.5, 0.9, 1.0, 1.5, f64::INFINITY];
const VELS: [f64; 6] = [0.1, 0.5, 1.0, 1.4, 3.6, 10.0];
const TOTALS: [f64; 6] = [50.0, 100.0, 333.3, 1000.0, 2e5, 0.0];
const STARTS: [f64; 2] = [0.0, 123_456.789];

fn grid_count() -> u64 {
    6 * RATIOS.len() as u64 * VELS.len() as u64 * TOTALS.len() as u64 * STARTS.len() as u64
}

fn params_of(op: &Op) -> Params {
    Params { start: op.arg(0), dur: op.arg(1), vel: op.arg(2), tick_dist: op.arg(3), total: op.arg(4), spans: op.iarg(5).clamp(1, 100_000) as i32 }
}

fn admissible(p: &Params) -> bool {
    // bounded work: at most 20k ticks per span; playable ranges only
    let len = p.total.min(100_000.0);
    let td = p.tick_dist.clamp(0.0, len.max(0.0));
    p.start.is_finite() && p.dur.is_finite() && p.dur > 0.0 && p.vel.is_finite() && p.vel > 0.0 && p.total.is_finite() && p.total >= 0.0 && !p.tick_dist.is_nan() && p.tick_dist >= 0.0 && (td == 0.0 || len / td <= 20_000.0) && p.spans >= 1 && f64::from(p.spans) * (if td == 0.0 { 1.0 } else { (len / td).max(1.0) }) <= 300_000.0
}

fn gen_params(rng: &mut Rng) -> [f64; 6] {
    let spans = if rng.chance(1, 50) {
        1 + rng.below(300)
    } else if rng.chance(1, 400) {
        9001
    } else {
        1 + rng.below(6)
    } as f64;
    let total = *rng.pick(&[50.0, 100.0, 1000.0, 333.3, 1e5, 2e5, 0.5, 150_000.0, 0.0]) * (0.5 + rng.unit());
    let ratio = *rng.pick(&RATIOS);
    let td = if ratio == 0.0 || ratio.is_infinite() { ratio } else { ratio * total * (0.9 + 0.2 * rng.unit()) };
    let vel = *rng.pick(&VELS) * (0.5 + rng.unit());
    let dur = if total > 0.0 { total / vel * (0.9 + 0.2 * rng.unit()) } else { 1.0 + 100.0 * rng.unit() };
    let start = *rng.pick(&[0.0, 1000.0, -500.0, 123_456.789]);
    [start, dur, vel, td, total, spans]
}

impl Scenario for C20 {
    fn id(&self) -> &'static str {
        "C20"
    }
    fn level(&self) -> &'static str {
        "exploration"
    }
    fn rule(&self) -> String {
        "Histories of iterators sharing one tick buffer: ops {pollute the buffer with n foreign events, construct an iterator and abandon it after j events, construct and run to completion}. (1) a grid span counts 1..6 x 11 tick-distance/length ratios (incl. 0, tiny, > 1, inf) x 6 velocities x 6 lengths (incl. zero and beyond MAX_LEN) x 2 start times, each run on a polluted buffer — enumerated; (2) seeded histories of 1..8 ops with real-valued parameters in playable ranges, occasionally hundreds / 9001 spans. Every completed stream: eager reference from the statement (structure exact, numbers within 1e-9 relative, tick-count boundary tolerance-aware), chronological ticks, identical tick placement on every span, bit-identical to the stream from a fresh buffer, zero tick distance => no ticks but every repeat. distinct_nontrivial = distinct plan hashes containing a run preceded by pollution or an abandoned iterator.".into()
    }
    fn assumptions(&self) -> Vec<String> {
        vec![
            "the eager reference (sim/src/models/events.rs) is the trusted base for structure and closed-form times; numeric comparison against it uses a relative tolerance because the code accumulates d += tick_dist".into(),
            "parameters are restricted to finite, positive duration / velocity / length and at most 20,000 ticks per span (bounded work)".into(),
        ]
    }
    fn components(&self) -> J {
        J::obj().with("real", J::Arr(vec![J::str("SliderEventsIter (lazy state machine, per-span tick stack, repeat placement)")])).with("stub", J::Arr(vec![J::str("none")]))
    }
    fn total_runs(&self, tier: Tier) -> u64 {
        grid_count()
            + match tier {
                Tier::Quick => 150_000,
                Tier::Thorough => 12_000_000,
            }
    }
    fn plan(&self, seed: u64, idx: u64, _tier: Tier) -> Plan {
        if idx < grid_count() {
            let mut k = idx;
            let spans = 1 + k % 6;
            k /= 6;
            let ratio = RATIOS[(k % RATIOS.len() as u64) as usize];
            k /= RATIOS.len() as u64;
            let vel = VELS[(k % VELS.len() as u64) as usize];
            k /= VELS.len() as u64;
            let total = TOTALS[(k % TOTALS.len() as u64) as usize];
            k /= TOTALS.len() as u64;
            let start = STARTS[(k % 2) as usize];
            let td = if ratio == 0.0 || ratio.is_infinite() { ratio } else { ratio * total.min(100_000.0) };
            let mut p = Plan::new("C20", "grid", seed, idx);
            p.ops.push(Op::new("pollute", &[3.0]));
            let dur = if total > 0.0 { total / vel } else { 40.0 / vel };
            p.ops.push(Op::new("run", &[start, dur, vel, td, total, spans as f64]));
            return p;
        }
        let mut rng = Rng::for_run(seed, "C20", idx);
        let mut p = Plan::new("C20", "shared-buffer-history", seed, idx);
        let n = 1 + rng.below(8);
        for _ in 0..n {
            match rng.below(6) {
                0 => p.ops.push(Op::new("pollute", &[1.0 + rng.below(12) as f64])),
                1 | 2 => {
                    let mut a = gen_params(&mut rng).to_vec();
                    a.push(rng.below(12) as f64);
                    p.ops.push(Op { k: "abandon".into(), a });
                }
                _ => p.ops.push(Op::new("run", &gen_params(&mut rng))),
            }
        }
        if !p.ops.iter().any(|o| o.k == "run") {
            p.ops.push(Op::new("run", &gen_params(&mut rng)));
        }
        p
    }
    fn execute(&self, plan: &Plan, st: &mut Stats) -> Result<(), Violation> {
        let mut shared: Vec<SliderEvent> = Vec::new();
        let mut h = Fnv::new();
        let mut dirty = false;
        let mut prev: Option<usize> = None;
        for (i, op) in plan.ops.iter().enumerate() {
            st.inc("steps.ops_applied");
            if let Some(k) = PAIRS.idx(&op.k) {
                if let Some(p) = prev {
                    st.inc(PAIRS.name(p, k));
                }
                prev = Some(k);
            }
            match op.k.as_str() {
                "pollute" => {
                    for k in 0..op.iarg(0).clamp(0, 64) {
                        shared.push(SliderEvent { kind: if k % 2 == 0 { SliderEventType::Tick } else { SliderEventType::Repeat }, span_idx: 7 + k as i32, span_start_time: -1.0, time: -2.0 - k as f64, path_progress: 0.3 });
                    }
                    st.inc("fired.H2-tick-buffer-polluted");
                    dirty = true;
                }
                "abandon" => {
                    let p = params_of(op);
                    if !admissible(&p) {
                        continue;
                    }
                    let mut it = SliderEventsIter::new(p.start, p.dur, p.vel, p.tick_dist, p.total, p.spans, &mut shared);
                    let j = op.iarg(6).clamp(0, 64);
                    for _ in 0..j {
                        if it.next().is_none() {
                            break;
                        }
                    }
                    drop(it);
                    st.inc("fired.H1-iterator-abandoned");
                    if !shared.is_empty() {
                        st.inc("probe.abandoned-iterator-left-ticks-in-buffer");
                    }
                    dirty = true;
                }
                "run" => {
                    let p = params_of(op);
                    if !admissible(&p) {
                        continue;
                    }
                    if !shared.is_empty() {
                        st.inc("probe.tick-buffer-nonempty-at-construction");
                    }
                    let mut last_hint = usize::MAX;
                    let mut got: Vec<SliderEvent> = Vec::new();
                    {
                        let mut it = SliderEventsIter::new(p.start, p.dur, p.vel, p.tick_dist, p.total, p.spans, &mut shared);
                        loop {
                            let (lo, _) = it.size_hint();
                            let _ = last_hint;
                            last_hint = lo;
                            match it.next() {
                                Some(e) => got.push(e),
                                None => break,
                            }
                            if got.len() > 30_000_000 {
                                return Err(Violation::new("C20/unbounded-stream", "unbounded", format!("op #{i}: more than 3e7 events")));
                            }
                        }
                    }
                    st.inc("ops.streams-completed");
                    st.add("steps.events", got.len() as u64);
                    let ticks = got.iter().filter(|e| e.kind == SliderEventType::Tick).count();
                    if ticks > 0 {
                        st.inc("probe.streams-with-ticks");
                    }
                    if p.spans >= 2 && ticks > 0 {
                        st.inc("probe.ticks-on-reversed-span");
                    }
                    if p.tick_dist == 0.0 && p.spans >= 2 {
                        st.inc("probe.zero-tick-distance-with-repeats");
                    }
                    if p.total > 100_000.0 {
                        st.inc("probe.length-beyond-MAX_LEN");
                    }
                    if dirty {
                        st.inc("probe.run-after-pollution-or-abandon");
                    }
                    for e in &got {
                        h.u64(e.time.to_bits());
                        h.u64(e.path_progress.to_bits());
                    }
                    let desc = || format!("start {} span_duration {} velocity {} tick_dist {} total_dist {} spans {}", p.start, p.dur, p.vel, p.tick_dist, p.total, p.spans);
                    // (c) identical stream from a fresh buffer — bit-exact
                    let mut fresh = Vec::new();
                    let twin: Vec<SliderEvent> = SliderEventsIter::new(p.start, p.dur, p.vel, p.tick_dist, p.total, p.spans, &mut fresh).collect();
                    if twin.len() != got.len() || twin.iter().zip(&got).any(|(a, b)| a.kind != b.kind || a.span_idx != b.span_idx || a.time.to_bits() != b.time.to_bits() || a.path_progress.to_bits() != b.path_progress.to_bits() || a.span_start_time.to_bits() != b.span_start_time.to_bits()) {
                        let at = twin.iter().zip(&got).position(|(a, b)| a != b).unwrap_or(twin.len().min(got.len()));
                        return Err(Violation::new("C20/depends-on-buffer-history", "buffer-residue", format!("op #{i} ({}): stream on the shared buffer has {} events, on a fresh buffer {}; first difference at event {at}: shared {:?} vs fresh {:?}", desc(), got.len(), twin.len(), got.get(at), twin.get(at))));
                    }
                    // (a) + (b) + (d) reference
                    if let Err(what) = check(&p, &got) {
                        return Err(Violation::new("C20/reference-mismatch", what.split(|c: char| c == ':' || c.is_ascii_digit()).next().unwrap_or("ref").trim(), format!("op #{i} ({}): {what}", desc())));
                    }
                    dirty = false;
                }
                _ => {}
            }
        }
        st.outcome = h.finish();
        Ok(())
    }
    fn nontrivial(&self, plan: &Plan) -> bool {
        let mut dirty = false;
        for o in &plan.ops {
            match o.k.as_str() {
                "pollute" | "abandon" => dirty = true,
                "run" if dirty => return true,
                _ => {}
            }
        }
        false
    }
    fn reach_probes(&self) -> Vec<&'static str> {
        vec![
            "fired.H1-iterator-abandoned",
            "fired.H2-tick-buffer-polluted",
            "probe.tick-buffer-nonempty-at-construction",
            "probe.abandoned-iterator-left-ticks-in-buffer",
            "probe.streams-with-ticks",
            "probe.ticks-on-reversed-span",
            "probe.zero-tick-distance-with-repeats",
            "probe.length-beyond-MAX_LEN",
            "probe.run-after-pollution-or-abandon",
        ]
    }
}
