//! C20 — slider event stream has the legacy structure and timing.
//! Real `SliderEventsIter` over ONE shared tick buffer that earlier iterators leave in arbitrary states (run to
//! completion, abandoned after j events, or polluted with foreign events), the way the encoder and downstream
//! crates use it. Each completed stream is checked against the eager reference (structure exact, numbers within
//! tolerance), ordering invariants, and a twin run on a fresh buffer (bit-exact).

use crate::engine::{Scenario, Stats, Tier, Violation};
use crate::json::J;
use crate::models::events::{check, Params};
use crate::plan::{Op, Plan};
use crate::rng::{Fnv, Rng};
use rosu_map::section::hit_objects::{SliderEvent, SliderEventType, SliderEventsIter};

pub struct C20 {
    pub corpus: std::sync::Arc<crate::corpus::Corpus>,
}

static PAIRS: crate::engine::PairTable = crate::engine::PairTable::new(&["pollute", "abandon", "run"]);

const RATIOS: [f64; 11] = [0.0, 1e-3, 0.01, 0.1, 0.25, 1.0 / 3.0, 0.5, 0.9, 1.0, 1.5, f64::INFINITY];
const VELS: [f64; 6] = [0.1, 0.5, 1.0, 1.4, 3.6, 10.0];
const TOTALS: [f64; 6] = [50.0, 100.0, 333.3, 1000.0, 2e5, 0.0];
const STARTS: [f64; 2] = [0.0, 123_456.789];

fn encoder_count(tier: Tier) -> u64 {
    match tier {
        Tier::Quick => 20_000,
        Tier::Thorough => 400_000,
    }
}
fn nodevol_count(tier: Tier) -> u64 {
    match tier {
        Tier::Quick => 12_000,
        Tier::Thorough => 300_000,
    }
}

/// The encoder as consumer, judged by values: maps built through the API (no sample points of their own) whose sliders
/// carry a distinct volume on every node. After encode + decode, the sample point ACTIVE just after each node's
/// closed-form time (head, every repeat, tail) must carry that node's volume — whatever the encoder dropped as
/// redundant on the way. Nodes without an own sample list fall back to the object's samples; nodes with no samples at
/// all, zero-length or unbounded sliders make no claim.
fn exec_nodevol(plan: &Plan, st: &mut Stats) -> Result<(), Violation> {
    use rosu_map::section::general::GameMode;
    use rosu_map::section::hit_objects::hit_samples::HitSampleInfo;
    use rosu_map::section::hit_objects::{Curve, CurveBuffers, HitObject, HitObjectKind, HitObjectSlider, PathControlPoint, SliderPath};
    use rosu_map::section::timing_points::{TimeSignature, TimingPoint};
    use rosu_map::util::Pos;
    use rosu_map::Beatmap;
    let mode = if plan.get("mode") == 2 { GameMode::Catch } else { GameMode::Osu };
    let mut map = Beatmap { mode, ..Default::default() };
    map.control_points.add(TimingPoint::new(0.0, 500.0, false, TimeSignature::new_simple_quadruple()));
    let vol = |v: f64| -> Vec<HitSampleInfo> { if v < 0.0 { Vec::new() } else { vec![HitSampleInfo::new(HitSampleInfo::HIT_NORMAL, None, 0, v as i32)] } };
    let mut t = 1000.0f64;
    for op in plan.ops.iter().filter(|o| o.k == "slider") {
        let (gap, len, velocity, repeats, nlists, objv) = (op.arg(0), op.arg(1), op.arg(2), op.iarg(3).clamp(0, 9100) as i32, op.iarg(4).max(0) as usize, op.arg(5));
        let vols: Vec<f64> = op.a[6..].to_vec();
        let start = t + gap;
        // shape (fraction digits of the gap): a straight line with a declared length, or a Bezier of many / few anchors with
        // or without one (the encoder walks all sliders with one shared set of curve buffers)
        let shape = ((gap * 8.0) as i64).rem_euclid(8);
        let (pts, declared) = match shape {
            1 | 2 => {
                let n = if shape == 1 { 14 } else { 3 };
                let mut v = vec![PathControlPoint { pos: Pos::new(0.0, 0.0), path_type: Some(rosu_map::section::hit_objects::PathType::BEZIER) }];
                for j in 1..n {
                    v.push(PathControlPoint::new(Pos::new((len as f32) * j as f32 / n as f32, if j % 2 == 0 { 40.0 } else { -25.0 })));
                }
                (v, if (gap as i64) % 2 == 0 { None } else { Some(len) })
            }
            _ => (vec![PathControlPoint::new(Pos::new(0.0, 0.0)), PathControlPoint::new(Pos::new(len as f32, 0.0))], Some(len)),
        };
        let mut slider = HitObjectSlider { pos: Pos::new(100.0, 100.0), new_combo: false, combo_offset: 0, path: SliderPath::new(mode, pts, declared), node_samples: Vec::new(), repeat_count: repeats, velocity };
        let nodes = repeats as usize + 2;
        for k in 0..nlists.min(nodes + 2) {
            slider.node_samples.push(vol(vols[k % vols.len().max(1)]));
        }
        // room for the slider at its full length (a later edit only shortens it)
        let duration = f64::from(repeats + 1) * (len * 3.0 + 200.0) / velocity;
        map.hit_objects.push(HitObject { start_time: start, kind: HitObjectKind::Slider(slider), samples: vol(objv) });
        t = if duration.is_finite() { start + duration.min(1e9) + 500.0 } else { start + 5000.0 };
    }
    st.add("steps.ops_applied", map.hit_objects.len() as u64);
    let mut h = Fnv::new();
    // pass 0: the map as built; pass 1: after a user shortened every other slider through expected_dist_mut (the curves the
    // first encode left behind must not be what the second encode walks)
    for pass in 0..2 {
        if pass == 1 {
            if plan.get("second_pass") == 0 {
                break;
            }
            for (si, ho) in map.hit_objects.iter_mut().enumerate() {
                if let HitObjectKind::Slider(sl) = &mut ho.kind {
                    if si % 2 == 0 {
                        let d = sl.path.expected_dist().map(|d| d * 0.5);
                        *sl.path.expected_dist_mut() = d;
                    }
                }
            }
            st.inc("ops.encoder-second-pass-after-length-edit");
        }
        // (node time, expected volume, slider, node, accepted alternative)
        let mut claims: Vec<(f64, i32, usize, usize, Option<i32>)> = Vec::new();
        for (si, ho) in map.hit_objects.iter_mut().enumerate() {
            let start = ho.start_time;
            let objv: Option<i32> = ho.samples.first().map(|s| s.volume);
            let HitObjectKind::Slider(slider) = &mut ho.kind else { continue };
            let nodes = slider.repeat_count as usize + 2;
            // what the path's length is, computed from scratch
            let dist = Curve::new(mode, slider.path.control_points(), slider.path.expected_dist(), &mut CurveBuffers::default()).dist();
            let spans = f64::from(slider.repeat_count + 1);
            let duration = spans * dist / slider.velocity;
            let span_dur = duration / spans;
            // the public duration API is what both consumers derive the span duration from
            let api = slider.duration();
            if api.to_bits() != duration.to_bits() && !(api.is_nan() && duration.is_nan()) {
                return Err(Violation::new("C20/encoder-span-duration", "duration", format!("slider #{si} (pass {pass}): HitObjectSlider::duration() = {api}, span count x curve distance / velocity = {duration} (spans {spans}, dist {dist}, velocity {})", slider.velocity)));
            }
            let eff_of = |k: usize| -> Option<i32> {
                match slider.node_samples.get(k) {
                    Some(l) => l.first().map(|s| s.volume),
                    None => objv,
                }
            };
            if duration == 0.0 && slider.velocity > 0.0 {
                // a slider of no length: every node shares the start time; the stream order (head, repeats, tail) decides, so
                // the tail's samples are what stays in force
                if let Some(v) = eff_of(nodes - 1) {
                    claims.push((start, v, si, nodes - 1, None));
                }
            }
            let claimable = span_dur.is_finite() && span_dur > 1e-3 && duration < 1e9;
            if claimable {
                for k in 0..nodes {
                    let eff = eff_of(k);
                    // the tail shares its time with the object's own end-time sample, which is collected first: the node
                    // wins; a node without any sample leaves the object's end-time sample in force there
                    let eff = if k == nodes - 1 && eff.is_none() { objv } else { eff };
                    // (the object's end time and the last node's time are computed along different routes and may differ
                    // by an ulp either way: at the tail the object's own volume is accepted as well)
                    let alt = if k == nodes - 1 { objv } else { None };
                    if let Some(v) = eff {
                        claims.push((start + k as f64 * span_dur, v, si, k, alt));
                        // ... and it is not in force before its time: right before node k+1 the volume is still this node's
                        if k + 1 < nodes {
                            claims.push((start + (k + 1) as f64 * span_dur - 2e-6, v, si, k, None));
                        }
                    }
                }
            }
        }
        if plan.idx % 2 == 0 {
            // the curves computed above stay cached in the paths only every other time: otherwise the encoder has to compute
            // them itself, all with its one shared set of buffers
            for ho in map.hit_objects.iter_mut() {
                if let HitObjectKind::Slider(sl) = &mut ho.kind {
                    sl.path.clear_curve();
                }
            }
        }
        let text = match map.encode_to_string() {
            Ok(t) => t,
            Err(_) => return Ok(()),
        };
        let back: Beatmap = match rosu_map::from_str(&text) {
            Ok(b) => b,
            Err(_) => return Ok(()),
        };
        st.inc("ops.encoder-node-volume-lookups");
        for (time, v, si, k, alt) in claims {
            let got = back.control_points.sample_point_at(time + 1e-6).map(|p| p.sample_volume);
            h.u64(got.unwrap_or(-1) as u64);
            st.inc("steps.node-volume-claims");
            if got != Some(v) && !(alt.is_some() && got == alt) {
                return Err(Violation::new(
                    "C20/encoder-node-sample-missing",
                    "node-volume",
                    format!("slider #{si}, node {k} (pass {pass}, closed-form time {time}): its samples carry volume {v}, but in the encoded map the sample point active right after that time has volume {got:?} — the head / repeat / tail event of that node was not consumed at its time with its samples\n[TimingPoints] written:\n{}", text.split("[TimingPoints]").nth(1).unwrap_or("").split("\n[").next().unwrap_or("")),
                ));
            }
        }
    }
    st.outcome = h.finish();
    Ok(())
}

/// Every control-point time the encoder writes must be a control-point time of the map or the closed-form time of a
/// head / repeat / tail / object end (that is where the encoder collects samples while walking each slider's events).
fn exec_encoder(plan: &Plan, st: &mut Stats) -> Result<(), Violation> {
    use rosu_map::section::general::GameMode;
    use rosu_map::section::hit_objects::HitObjectKind;
    use rosu_map::Beatmap;
    let mut map: Beatmap = match rosu_map::from_bytes(&plan.data) {
        Ok(m) => m,
        Err(_) => return Ok(()),
    };
    let mut allowed: Vec<f64> = Vec::new();
    allowed.extend(map.control_points.timing_points.iter().map(|p| p.time));
    allowed.extend(map.control_points.difficulty_points.iter().map(|p| p.time));
    allowed.extend(map.control_points.effect_points.iter().map(|p| p.time));
    allowed.extend(map.control_points.sample_points.iter().map(|p| p.time));
    let mode = map.mode;
    // the README's use case: decode, edit, encode — some sliders get another velocity (public field) before encoding
    let edit = plan.get("edit_velocity");
    if edit != 0 {
        for (k, h) in map.hit_objects.iter_mut().enumerate() {
            if let HitObjectKind::Slider(sl) = &mut h.kind {
                if (k as i64 + edit) % 2 == 0 {
                    sl.velocity *= if edit % 3 == 0 { 0.5 } else { 2.0 };
                    st.inc("ops.slider-velocity-edited-before-encode");
                }
            }
        }
    }
    let (edit_nodes, edit_repeats) = (plan.get("edit_nodes"), plan.get("edit_repeats"));
    if edit_nodes != 0 || edit_repeats != 0 {
        for (k, h) in map.hit_objects.iter_mut().enumerate() {
            if let HitObjectKind::Slider(sl) = &mut h.kind {
                if edit_nodes != 0 && (k as i64 + edit_nodes) % 2 == 0 {
                    match edit_nodes {
                        1 => sl.node_samples.clear(),
                        2 => sl.node_samples.truncate(1),
                        3 => sl.node_samples.truncate(2),
                        _ => {
                            if let Some(n) = sl.node_samples.last_mut() {
                                n.clear();
                            }
                        }
                    }
                    st.inc("ops.slider-node-samples-edited-before-encode");
                }
                if edit_repeats != 0 {
                    sl.repeat_count = (sl.repeat_count + edit_repeats as i32).clamp(0, 12);
                    st.inc("ops.slider-repeats-edited-before-encode");
                }
            }
        }
    }
    let mut sliders = 0u64;
    let mut node_times: Vec<f64> = Vec::new();
    let mut lifetimes: Vec<(f64, f64)> = Vec::new();
    for h in map.hit_objects.iter_mut() {
        let start = h.start_time;
        match &mut h.kind {
            HitObjectKind::Circle(_) => {
                allowed.push(start);
                lifetimes.push((start, start));
            }
            HitObjectKind::Spinner(s) => {
                allowed.push(start + s.duration);
                lifetimes.push((start, start + s.duration));
            }
            HitObjectKind::Hold(o) => {
                allowed.push(start + o.duration);
                allowed.push(start);
                lifetimes.push((start, start + o.duration));
            }
            HitObjectKind::Slider(sl) => {
                sliders += 1;
                let spans = f64::from(sl.span_count());
                let dist = sl.path.curve().dist();
                let duration = spans * dist / sl.velocity;
                let span_dur = duration / spans;
                allowed.push(start + duration);
                if duration.is_finite() {
                    lifetimes.push((start.min(start + duration), start.max(start + duration)));
                } else {
                    lifetimes.push((f64::NEG_INFINITY, f64::INFINITY));
                }
                match mode {
                    GameMode::Osu | GameMode::Catch => {
                        for k in 0..=sl.span_count() {
                            allowed.push(start + f64::from(k) * span_dur);
                            node_times.push(start + f64::from(k) * span_dur);
                        }
                    }
                    GameMode::Mania => allowed.push(start),
                    GameMode::Taiko => {}
                }
            }
        }
    }
    st.add("steps.ops_applied", sliders);
    if sliders > 0 {
        st.inc("ops.encoder-walked-slider-events");
    }
    // Two callers, one iterator: the osu! and the catch encoder paths both place samples at the head / repeat / tail
    // events of the same slider, so for the same objects the [TimingPoints] section they write must be the same text.
    if matches!(mode, GameMode::Osu | GameMode::Catch) && sliders > 0 {
        let section = |m: &Beatmap, as_mode: GameMode| -> Option<String> {
            let mut c = m.clone();
            c.mode = as_mode;
            let mut o = Vec::new();
            c.encode(&mut o).ok()?;
            let t = String::from_utf8_lossy(&o).into_owned();
            let a = t.find("[TimingPoints]")?;
            let z = t[a..].find("\n[Colours]").map_or(t.len(), |x| a + x);
            Some(t[a..z].to_string())
        };
        if let (Some(a), Some(b)) = (section(&map, GameMode::Osu), section(&map, GameMode::Catch)) {
            st.inc("ops.osu-vs-catch-caller-differential");
            if a != b {
                st.inc("probe.osu-and-catch-sections-differ");
                // Verdict, deliberately narrow: only a closed-form NODE time (head / repeat / tail of some slider) that has
                // a control point under one caller and none under the other. Differences in values, or at other times
                // (e.g. if an encoder also sampled ticks, whose spacing differs per mode), are not judged.
                let times = |t: &str| -> Vec<f64> { t.lines().skip(1).filter_map(|l| l.split(',').next().and_then(|f| f.trim().parse::<f64>().ok())).filter(|x| x.is_finite()).collect() };
                let (ta, tb) = (times(&a), times(&b));
                let near = |v: &[f64], t: f64| v.iter().any(|x| *x == t || (x - t).abs() <= 1e-6 + 1e-9 * t.abs());
                for &t in &node_times {
                    if t.is_finite() && near(&ta, t) != near(&tb, t) {
                        return Err(Violation::new(
                            "C20/encoder-callers-disagree",
                            "osu-vs-catch",
                            format!("node time {t} (closed-form head / repeat / tail time of a slider) has a control point when the map is encoded as {} but none as {}: the two callers of the slider event iterator do not see the same head / repeat / tail events", if near(&ta, t) { "osu!" } else { "catch" }, if near(&ta, t) { "catch" } else { "osu!" }),
                        ));
                    }
                }
            }
        }
    }
    let mut out = Vec::new();
    if map.encode(&mut out).is_err() {
        return Ok(());
    }
    let text = String::from_utf8_lossy(&out);
    let mut in_tp = false;
    let close = |a: f64, b: f64| a == b || (a - b).abs() <= 1e-6 + 1e-9 * a.abs().max(b.abs());
    allowed.retain(|t| t.is_finite());
    allowed.sort_by(f64::total_cmp);
    for line in text.lines() {
        if line.starts_with('[') {
            in_tp = line.trim_end() == "[TimingPoints]";
            continue;
        }
        if !in_tp || line.trim().is_empty() {
            continue;
        }
        let Some(t) = line.split(',').next().and_then(|f| f.trim().parse::<f64>().ok()) else { continue };
        if !t.is_finite() {
            continue;
        }
        st.inc("steps.encoded-control-lines");
        let i = allowed.partition_point(|a| *a < t);
        let exact = allowed.get(i).map_or(false, |a| close(*a, t)) || (i > 0 && close(allowed[i - 1], t));
        if exact {
            st.inc("probe.encoded-time-is-a-map-time-or-closed-form-node-time");
            continue;
        }
        st.inc("probe.encoded-time-elsewhere");
        // Verdict (deliberately narrower than the statistic above, so that an encoder which also placed samples at tick
        // times would not be flagged): a time the encoder derived from a slider's events must lie within some object's
        // lifetime [start, end] — head is the start, tail the end, everything else in between.
        let inside = lifetimes.iter().any(|(a, z)| t >= a - 1e-6 - 1e-9 * a.abs() && t <= z + 1e-6 + 1e-9 * z.abs());
        if !inside {
            return Err(Violation::new(
                "C20/encoder-event-times",
                "encoder",
                format!("the encoder wrote a control-point line at time {t} ({line:?}) which is not a control-point time of the map and lies outside the lifetime of every hit object (mode {mode:?}, {sliders} sliders): the head / repeat / tail times it derived for a slider do not have their closed form"),
            ));
        }
    }
    Ok(())
}

fn grid_count() -> u64 {
    6 * RATIOS.len() as u64 * VELS.len() as u64 * TOTALS.len() as u64 * STARTS.len() as u64 + EXACT.len() as u64 * 6
}

/// (length, velocity) pairs whose cut-off `length - 10*velocity` is exactly representable; the tick distance is set to it
const EXACT: [(f64, f64); 5] = [(500.0, 1.0), (96.0, 0.8), (1000.0, 2.5), (100.0, 10.0), (150_000.0, 3.0)];

fn params_of(op: &Op) -> Params {
    Params { start: op.arg(0), dur: op.arg(1), vel: op.arg(2), tick_dist: op.arg(3), total: op.arg(4), spans: op.iarg(5).clamp(1, 100_000) as i32 }
}

fn admissible(p: &Params) -> bool {
    // bounded work: at most 20k ticks per span (multiples of the tick distance before the cut-off); playable ranges only
    let full = p.total.min(100_000.0);
    let td = p.tick_dist.clamp(0.0, full.max(0.0));
    let len = (full - 10.0 * p.vel).clamp(0.0, full.max(0.0));
    let len = if td > 0.0 && len <= td { td } else { len };
    p.start.is_finite() && p.dur.is_finite() && p.dur >= 0.0 && p.vel.is_finite() && p.vel >= 0.0 && p.total.is_finite() && p.total >= 0.0 && !p.tick_dist.is_nan() && p.tick_dist >= 0.0 && (td == 0.0 || len / td <= 20_000.0) && p.spans >= 1 && f64::from(p.spans) * (if td == 0.0 { 1.0 } else { (len / td).max(1.0) }) <= 300_000.0
}

/// `nth`, `last`, `count`, `size_hint` and behaviour after exhaustion must agree with the stream seen through `next`.
fn adaptors(p: &Params, got: &[SliderEvent], shared: &mut Vec<SliderEvent>, salt: usize, st: &mut Stats) -> Result<(), String> {
    if got.len() > 20_000 {
        return Ok(());
    }
    let same = |a: &SliderEvent, b: &SliderEvent| a.kind == b.kind && a.span_idx == b.span_idx && a.time.to_bits() == b.time.to_bits() && a.path_progress.to_bits() == b.path_progress.to_bits() && a.span_start_time.to_bits() == b.span_start_time.to_bits();
    st.inc("ops.iterator-adaptor-checks");
    // nth hops (sizes derived from the operation's position: deterministic)
    {
        let mut it = SliderEventsIter::new(p.start, p.dur, p.vel, p.tick_dist, p.total, p.spans, shared);
        let mut pos = 0usize;
        let mut step = 0usize;
        loop {
            let (lo, hi) = it.size_hint();
            let remaining = got.len() - pos.min(got.len());
            if lo > remaining {
                return Err(format!("size_hint: lower bound {lo} exceeds the {remaining} events that remain at position {pos}"));
            }
            if let Some(h) = hi {
                if h < remaining {
                    return Err(format!("size_hint: upper bound {h} below the {remaining} events that remain at position {pos}"));
                }
            }
            let hop = (salt * 7 + step * 3 + got.len()) % 5;
            step += 1;
            match (it.nth(hop), got.get(pos + hop)) {
                (Some(a), Some(b)) if same(&a, b) => pos += hop + 1,
                (None, None) => break,
                (a, b) => return Err(format!("nth: nth({hop}) at position {pos} returned {a:?}, the stream seen through next() has {b:?} there")),
            }
        }
    }
    // a partially consumed iterator handed to every bulk consumer of the Iterator trait (each is a provided method a
    // type may override): after k calls of next() the rest must be exactly got[k..]
    {
        let n = got.len();
        let mut ks: Vec<usize> = vec![0, 1, 2, 3, n / 2, n.saturating_sub(2), n.saturating_sub(1), n, (salt * 5 + 1) % (n + 1), (salt * 11 + 3) % (n + 1)];
        ks.sort_unstable();
        ks.dedup();
        for (j, &k) in ks.iter().enumerate() {
            if k > n {
                continue;
            }
            let mut it = SliderEventsIter::new(p.start, p.dur, p.vel, p.tick_dist, p.total, p.spans, shared);
            for _ in 0..k {
                let _ = it.next();
            }
            let want = &got[k..];
            let (how, rest): (&str, Vec<SliderEvent>) = match (j + salt) % 6 {
                0 => ("fold", it.fold(Vec::new(), |mut v, e| {
                    v.push(e);
                    v
                })),
                1 => {
                    let mut v = Vec::new();
                    it.for_each(|e| v.push(e));
                    ("for_each", v)
                }
                2 => ("collect", it.collect()),
                3 => {
                    let c = it.count();
                    if c != want.len() {
                        return Err(format!("count: after {k} calls of next() count() is {c}, {} events remained", want.len()));
                    }
                    continue;
                }
                4 => {
                    let mut v = Vec::new();
                    let r: Result<(), ()> = it.try_for_each(|e| {
                        v.push(e);
                        Ok(())
                    });
                    let _ = r;
                    ("try_for_each", v)
                }
                _ => {
                    let mut v = Vec::new();
                    let mut pk = it.by_ref().peekable();
                    while let Some(e) = pk.next() {
                        v.push(e);
                    }
                    ("by_ref+peekable", v)
                }
            };
            if rest.len() != want.len() || rest.iter().zip(want).any(|(a, b)| !same(a, b)) {
                let at = rest.iter().zip(want).position(|(a, b)| !same(a, b)).unwrap_or(rest.len().min(want.len()));
                return Err(format!("bulk-consumer: after {k} calls of next(), {how} delivered {} events, {} remained; first difference at +{at}: {:?} vs {:?}", rest.len(), want.len(), rest.get(at), want.get(at)));
            }
        }
    }
    {
        let it = SliderEventsIter::new(p.start, p.dur, p.vel, p.tick_dist, p.total, p.spans, shared);
        let n = it.count();
        if n != got.len() {
            return Err(format!("count: count() is {n}, next() produced {} events", got.len()));
        }
    }
    {
        let it = SliderEventsIter::new(p.start, p.dur, p.vel, p.tick_dist, p.total, p.spans, shared);
        match (it.last(), got.last()) {
            (Some(a), Some(b)) if same(&a, b) => {}
            (None, None) => {}
            (a, b) => return Err(format!("last: last() on a fresh iterator returned {a:?}, the stream ends with {b:?}")),
        }
    }
    {
        // skipping every event leaves nothing; skipping all but one leaves the tail (std adaptors on a fresh iterator;
        // nothing is asked of the iterator after it has returned None)
        let it = SliderEventsIter::new(p.start, p.dur, p.vel, p.tick_dist, p.total, p.spans, shared);
        if let Some(e) = it.skip(got.len()).last() {
            return Err(format!("skip-last: skip({}).last() returned {e:?} although the stream has only {} events", got.len(), got.len()));
        }
        if !got.is_empty() {
            let it = SliderEventsIter::new(p.start, p.dur, p.vel, p.tick_dist, p.total, p.spans, shared);
            match (it.skip(got.len() - 1).last(), got.last()) {
                (Some(a), Some(b)) if same(&a, b) => {}
                (a, b) => return Err(format!("skip-last: skip(count-1).last() returned {a:?}, the stream ends with {b:?}")),
            }
        }
    }
    {
        // skip / step_by are built on nth
        let it = SliderEventsIter::new(p.start, p.dur, p.vel, p.tick_dist, p.total, p.spans, shared);
        let k = 1 + salt % 3;
        let via: Vec<SliderEvent> = it.skip(k).step_by(2).collect();
        let want: Vec<&SliderEvent> = got.iter().skip(k).step_by(2).collect();
        if via.len() != want.len() || via.iter().zip(&want).any(|(a, b)| !same(a, b)) {
            return Err(format!("skip-step_by: skip({k}).step_by(2) yields {} events, expected {}", via.len(), want.len()));
        }
    }
    Ok(())
}

fn gen_params(rng: &mut Rng) -> [f64; 6] {
    let spans = if rng.chance(1, 50) {
        1 + rng.below(300)
    } else if rng.chance(1, 400) {
        9001
    } else {
        1 + rng.below(6)
    } as f64;
    let total = *rng.pick(&[50.0, 100.0, 1000.0, 333.3, 1e5, 2e5, 0.5, 150_000.0, 0.0]) * (0.5 + rng.unit());
    let ratio = *rng.pick(&RATIOS);
    let mut td = if ratio == 0.0 || ratio.is_infinite() { ratio } else { ratio * total * (0.9 + 0.2 * rng.unit()) };
    let vel = if rng.chance(1, 4) { *rng.pick(&VELS) } else { *rng.pick(&VELS) * (0.5 + rng.unit()) };
    if rng.chance(1, 12) {
        // tick distance exactly at (or one ulp around) the cut-off: length - 10 ms of travel
        let cut = total.min(100_000.0) - 10.0 * vel;
        if cut > 0.0 {
            td = match rng.below(3) {
                0 => cut,
                1 => f64::from_bits(cut.to_bits() + 1),
                _ => f64::from_bits(cut.to_bits() - 1),
            };
        }
    }
    let dur = if total > 0.0 { total / vel * (0.9 + 0.2 * rng.unit()) } else { 1.0 + 100.0 * rng.unit() };
    let start = *rng.pick(&[0.0, 1000.0, -500.0, 123_456.789, 0.0, 1000.0, 9_007_199_254_740_992.0, 1e17]);
    // rarely: nothing travels (velocity 0) or a span takes no time (every event of the span shares one timestamp)
    let vel = if rng.chance(1, 40) { 0.0 } else { vel };
    let dur = if rng.chance(1, 40) { 0.0 } else if vel == 0.0 { 100.0 + 400.0 * rng.unit() } else { dur };
    let (mut total, mut td, mut vel) = (total, td, vel);
    if rng.chance(1, 10) {
        // the same slider in other units: every length-like parameter scaled by a power of two (exact), down to the
        // microscopic — the number and the relative placement of the ticks do not depend on the unit
        let s = 2f64.powi(-(1 + rng.below(220) as i32));
        total *= s;
        vel *= s;
        if td.is_finite() {
            td *= s;
        }
    } else if rng.chance(1, 25) {
        // no tick fits (the cut-off swallows the whole span) while the tick distance is as small as a float can be:
        // whatever is sized or counted from length / tick distance must cope
        total = *rng.pick(&[5.0, 50.0, 0.5, 1e-3, 300.0]);
        vel = total / 10.0 * *rng.pick(&[1.0, 1.5, 100.0]);
        td = *rng.pick(&[1e-300, 5e-324, 1e-16, 1e-30, 2.2250738585072014e-308, total * 1e-12]);
    }
    [start, dur, vel, td, total, spans]
}

impl Scenario for C20 {
    fn id(&self) -> &'static str {
        "C20"
    }
    fn level(&self) -> &'static str {
        "exploration"
    }
    fn rule(&self) -> String {
        "Three families; the third is the library's own caller — encoder-as-caller: bundled / generated maps (extra sliders with repeats, per-node samples, declared lengths that differ from the path length) are decoded and encoded; every control-point time the encoder writes must be a control-point time of the map or the closed-form time of a head / repeat / tail / object end. Histories of iterators sharing one tick buffer: ops {pollute the buffer with n foreign events, construct an iterator and abandon it after j events, construct and run to completion}. (1) a grid span counts 1..6 x 11 tick-distance/length ratios (incl. 0, tiny, > 1, inf) x 6 velocities x 6 lengths (incl. zero and beyond MAX_LEN) x 2 start times, each run on a polluted buffer — enumerated; (2) seeded histories of 1..8 ops with real-valued parameters in playable ranges, occasionally hundreds / 9001 spans. Every completed stream: eager reference from the statement (structure exact, numbers within 1e-9 relative, tick-count boundary tolerance-aware), chronological ticks, identical tick placement on every span, bit-identical to the stream from a fresh buffer, zero tick distance => no ticks but every repeat; the same stream through nth / skip / step_by / count / last, size_hint bounds honoured, nothing after exhaustion. Also: parameters scaled by powers of two down to 2^-220, no-tick-fits sliders with tick distances down to 5e-324, node-sample / repeat-count edits before encode. Round 8: bulk consumers (fold, for_each, collect, count, try_for_each, peekable) after k calls of next(). Round 10: encoder-node-volumes family (API-built maps, distinct volume per node, active sample volume after encode+decode at each node time; duration API vs closed form). Round 11: second encode after a length edit; zero-length sliders; a node's volume still in force right before the next node. Round 13: curved sliders with/without declared length; cached curves dropped before encoding every other time. distinct_nontrivial = distinct plan hashes containing a run preceded by pollution or an abandoned iterator.".into()
    }
    fn assumptions(&self) -> Vec<String> {
        vec![
            "the eager reference (sim/src/models/events.rs) is the trusted base for structure and closed-form times; numeric comparison against it uses a relative tolerance because the code accumulates d += tick_dist".into(),
            "parameters are restricted to finite, positive duration / velocity / length and at most 20,000 ticks per span (bounded work)".into(),
        ]
    }
    fn components(&self) -> J {
        J::obj().with("real", J::Arr(vec![J::str("SliderEventsIter (lazy state machine, per-span tick stack, repeat placement)")])).with("stub", J::Arr(vec![J::str("none")]))
    }
    fn total_runs(&self, tier: Tier) -> u64 {
        grid_count()
            + match tier {
                Tier::Quick => 150_000,
                Tier::Thorough => 12_000_000,
            }
            + encoder_count(tier)
            + nodevol_count(tier)
    }
    fn plan(&self, seed: u64, idx: u64, _tier: Tier) -> Plan {
        let plain = grid_count() - EXACT.len() as u64 * 6;
        if idx >= plain && idx < grid_count() {
            let k = idx - plain;
            let (total, vel) = EXACT[(k / 6) as usize];
            let spans = 1 + k % 6;
            let td = total.min(100_000.0) - 10.0 * vel;
            let mut p = Plan::new("C20", "grid-exact-cutoff", seed, idx);
            p.ops.push(Op::new("run", &[0.0, total.min(100_000.0) / vel, vel, td, total, spans as f64]));
            return p;
        }
        if idx < plain {
            let mut k = idx;
            let spans = 1 + k % 6;
            k /= 6;
            let ratio = RATIOS[(k % RATIOS.len() as u64) as usize];
            k /= RATIOS.len() as u64;
            let vel = VELS[(k % VELS.len() as u64) as usize];
            k /= VELS.len() as u64;
            let total = TOTALS[(k % TOTALS.len() as u64) as usize];
            k /= TOTALS.len() as u64;
            let start = STARTS[(k % 2) as usize];
            let td = if ratio == 0.0 || ratio.is_infinite() { ratio } else { ratio * total.min(100_000.0) };
            let mut p = Plan::new("C20", "grid", seed, idx);
            p.ops.push(Op::new("pollute", &[3.0]));
            let dur = if total > 0.0 { total / vel } else { 40.0 / vel };
            p.ops.push(Op::new("run", &[start, dur, vel, td, total, spans as f64]));
            return p;
        }
        let mut rng = Rng::for_run(seed, "C20", idx);
        if idx >= self.total_runs(_tier) - nodevol_count(_tier) {
            let mut p = Plan::new("C20", "encoder-node-volumes", seed, idx);
            p.set("mode", *rng.pick(&[0i64, 2]));
            p.set("second_pass", rng.below(2) as i64);
            for _ in 0..1 + rng.below(4) {
                let repeats = if rng.chance(1, 300) { 9000 + rng.below(12) } else if rng.chance(1, 10) { 5 + rng.below(30) } else { rng.below(5) } as f64;
                let nodes = repeats as usize + 2;
                let len = if rng.chance(1, 12) { 0.0 } else { *rng.pick(&[100.0, 50.0, 300.0, 37.5, 120.25, 5.0]) * (0.5 + rng.unit()) };
                let velocity = if rng.chance(1, 30) { 0.0 } else { *rng.pick(&[0.5, 1.0, 0.78, 2.0, 1.4, 0.1, 3.3]) * if rng.chance(1, 2) { 1.0 } else { 0.5 + rng.unit() } };
                let nlists = match rng.below(6) {
                    0 => 0,
                    1 => 1,
                    2 => nodes.saturating_sub(1),
                    3 => nodes + 1,
                    _ => nodes,
                } as f64;
                let objv = if rng.chance(1, 6) { -1.0 } else { *rng.pick(&[30.0, 55.0, 80.0, 100.0]) };
                let mut a = vec![rng.range(0, 400) as f64 + rng.below(8) as f64 / 8.0, len, velocity, repeats, nlists, objv];
                // volumes cycle through a short list of distinct values (an occasional -1: a node with an empty list)
                let nv = 2 + rng.below(4);
                for j in 0..nv {
                    a.push(if rng.chance(1, 12) { -1.0 } else { 10.0 + 7.0 * j as f64 + rng.below(5) as f64 });
                }
                p.ops.push(Op { k: "slider".into(), a });
            }
            return p;
        }
        if idx >= self.total_runs(_tier) - encoder_count(_tier) - nodevol_count(_tier) {
            // the library's own caller: the encoder derives the parameters of each slider and walks its events with one
            // shared tick buffer to place sample points at head / repeat / tail times
            let mut p = Plan::new("C20", "encoder-as-caller", seed, idx);
            let mut text = if rng.chance(1, 2) {
                let f = self.corpus.pick(&mut rng, 25);
                p.note = self.corpus.files[f].0.clone();
                crate::corpus::file_text(&self.corpus.files[f].1)
            } else {
                crate::corpus::gen_osu(&mut rng)
            };
            if rng.chance(1, 2) {
                text = crate::corpus::set_mode(&text, *rng.pick(&[0i64, 0, 2, 2, 1, 3]));
            }
            if !text.contains("[HitObjects]") {
                text.push_str("\n[HitObjects]\n");
            } else if !text.ends_with('\n') {
                text.push('\n');
            }
            if text.trim_end().ends_with("[HitObjects]") || rng.chance(1, 2) {
                let mut t = rng.range(0, 4000);
                for _ in 0..1 + rng.below(6) {
                    if rng.chance(1, 4) {
                        // a control point right before the slider (sections may repeat): ticks switched off (NaN), extreme or
                        // ordinary velocities, another timing
                        let bl = *rng.pick(&["NaN", "NaN", "-50", "-1000", "-10", "300", "-0.0001"]);
                        let inh = if bl.starts_with('-') || bl == "NaN" { 0 } else { 1 };
                        text.push_str(&format!("[TimingPoints]\n{},{bl},4,1,0,{},{inh},0\n[HitObjects]\n", t - rng.range(0, 50), *rng.pick(&[100, 60, 30])));
                    }
                    // sliders with repeats and per-node samples of distinct volumes, some with a declared length that
                    // differs from the path's own length (doubled last anchor)
                    let (x, y) = (rng.range(0, 512), rng.range(0, 384));
                    let (ax, ay) = (rng.range(0, 512), rng.range(0, 384));
                    let path = match rng.below(4) {
                        0 => format!("L|{ax}:{ay}|{ax}:{ay}"),
                        1 => format!("B|{ax}:{ay}|{}:{}", rng.range(0, 512), rng.range(0, 384)),
                        2 => format!("P|{ax}:{ay}|{}:{}", rng.range(0, 512), rng.range(0, 384)),
                        _ => format!("L|{ax}:{ay}"),
                    };
                    let slides = 1 + rng.below(4);
                    let len = *rng.pick(&["", "100", "300", "37.5", "600"]);
                    let nodes: Vec<String> = (0..=slides).map(|_| rng.below(16).to_string()).collect();
                    let sets: Vec<String> = (0..=slides).map(|_| format!("{}:{}", rng.below(4), rng.below(4))).collect();
                    let lenf = if len.is_empty() { String::from(",") } else { format!(",{len}") };
                    text.push_str(&format!("{x},{y},{t},2,{},{path},{slides}{lenf},{},{},{}:{}:{}:{}:\n", rng.below(16), nodes.join("|"), sets.join("|"), rng.below(4), rng.below(4), rng.below(3), *rng.pick(&[0, 30, 70, 100])));
                    t += rng.range(200, 3000);
                }
            }
            p.data = text.into_bytes();
            if rng.chance(1, 3) {
                p.set("edit_velocity", 1 + rng.below(6) as i64);
            }
            if rng.chance(1, 3) {
                // more edits through public fields: per-node sample lists cut short or cleared, repeat count changed
                p.set("edit_nodes", 1 + rng.below(4) as i64);
            }
            if rng.chance(1, 4) {
                p.set("edit_repeats", *rng.pick(&[1i64, 2, 3, -1]));
            }
            return p;
        }
        let mut p = Plan::new("C20", "shared-buffer-history", seed, idx);
        let n = 1 + rng.below(8);
        for _ in 0..n {
            match rng.below(6) {
                0 => p.ops.push(Op::new("pollute", &[1.0 + rng.below(12) as f64])),
                1 | 2 => {
                    let mut a = gen_params(&mut rng).to_vec();
                    a.push(rng.below(12) as f64);
                    p.ops.push(Op { k: "abandon".into(), a });
                }
                _ => p.ops.push(Op::new("run", &gen_params(&mut rng))),
            }
        }
        if !p.ops.iter().any(|o| o.k == "run") {
            p.ops.push(Op::new("run", &gen_params(&mut rng)));
        }
        p
    }
    fn execute(&self, plan: &Plan, st: &mut Stats) -> Result<(), Violation> {
        if plan.scen == "encoder-as-caller" {
            return exec_encoder(plan, st);
        }
        if plan.scen == "encoder-node-volumes" {
            return exec_nodevol(plan, st);
        }
        let mut shared: Vec<SliderEvent> = Vec::new();
        let mut h = Fnv::new();
        let mut dirty = false;
        let mut prev: Option<usize> = None;
        for (i, op) in plan.ops.iter().enumerate() {
            st.inc("steps.ops_applied");
            if let Some(k) = PAIRS.idx(&op.k) {
                if let Some(p) = prev {
                    st.inc(PAIRS.name(p, k));
                }
                prev = Some(k);
            }
            match op.k.as_str() {
                "pollute" => {
                    for k in 0..op.iarg(0).clamp(0, 64) {
                        shared.push(SliderEvent { kind: if k % 2 == 0 { SliderEventType::Tick } else { SliderEventType::Repeat }, span_idx: 7 + k as i32, span_start_time: -1.0, time: -2.0 - k as f64, path_progress: 0.3 });
                    }
                    st.inc("fired.H2-tick-buffer-polluted");
                    dirty = true;
                }
                "abandon" => {
                    let p = params_of(op);
                    if !admissible(&p) {
                        continue;
                    }
                    let mut it = SliderEventsIter::new(p.start, p.dur, p.vel, p.tick_dist, p.total, p.spans, &mut shared);
                    let j = op.iarg(6).clamp(0, 64);
                    for _ in 0..j {
                        if it.next().is_none() {
                            break;
                        }
                    }
                    drop(it);
                    st.inc("fired.H1-iterator-abandoned");
                    if !shared.is_empty() {
                        st.inc("probe.abandoned-iterator-left-ticks-in-buffer");
                    }
                    dirty = true;
                }
                "run" => {
                    let p = params_of(op);
                    if !admissible(&p) {
                        continue;
                    }
                    if !shared.is_empty() {
                        st.inc("probe.tick-buffer-nonempty-at-construction");
                    }
                    let mut hints: Vec<(usize, Option<usize>)> = Vec::new();
                    let mut got: Vec<SliderEvent> = Vec::new();
                    {
                        let mut it = SliderEventsIter::new(p.start, p.dur, p.vel, p.tick_dist, p.total, p.spans, &mut shared);
                        loop {
                            if hints.len() < 4096 {
                                hints.push(it.size_hint());
                            }
                            match it.next() {
                                Some(e) => got.push(e),
                                None => break,
                            }
                            if got.len() > 30_000_000 {
                                return Err(Violation::new("C20/unbounded-stream", "unbounded", format!("op #{i}: more than 3e7 events")));
                            }
                        }
                    }
                    st.inc("ops.streams-completed");
                    // size_hint before the k-th next(): lower bound <= events still to come <= upper bound
                    for (k, (lo, hi)) in hints.iter().enumerate() {
                        let remaining = got.len().saturating_sub(k);
                        if *lo > remaining || hi.map_or(false, |h| h < remaining) {
                            return Err(Violation::new("C20/iterator-api-inconsistent", "size_hint", format!("op #{i}: before event #{k} size_hint() was ({lo}, {hi:?}) but {remaining} events followed")));
                        }
                    }
                    st.add("steps.events", got.len() as u64);
                    let ticks = got.iter().filter(|e| e.kind == SliderEventType::Tick).count();
                    if ticks > 0 {
                        st.inc("probe.streams-with-ticks");
                    }
                    if p.spans >= 2 && ticks > 0 {
                        st.inc("probe.ticks-on-reversed-span");
                    }
                    if p.tick_dist == 0.0 && p.spans >= 2 {
                        st.inc("probe.zero-tick-distance-with-repeats");
                    }
                    if p.total > 100_000.0 {
                        st.inc("probe.length-beyond-MAX_LEN");
                    }
                    if dirty {
                        st.inc("probe.run-after-pollution-or-abandon");
                    }
                    for e in &got {
                        h.u64(e.time.to_bits());
                        h.u64(e.path_progress.to_bits());
                    }
                    let desc = || format!("start {} span_duration {} velocity {} tick_dist {} total_dist {} spans {}", p.start, p.dur, p.vel, p.tick_dist, p.total, p.spans);
                    // (c) identical stream from a fresh buffer — bit-exact
                    let mut fresh = Vec::new();
                    let twin: Vec<SliderEvent> = SliderEventsIter::new(p.start, p.dur, p.vel, p.tick_dist, p.total, p.spans, &mut fresh).collect();
                    if twin.len() != got.len() || twin.iter().zip(&got).any(|(a, b)| a.kind != b.kind || a.span_idx != b.span_idx || a.time.to_bits() != b.time.to_bits() || a.path_progress.to_bits() != b.path_progress.to_bits() || a.span_start_time.to_bits() != b.span_start_time.to_bits()) {
                        let at = twin.iter().zip(&got).position(|(a, b)| a != b).unwrap_or(twin.len().min(got.len()));
                        return Err(Violation::new("C20/depends-on-buffer-history", "buffer-residue", format!("op #{i} ({}): stream on the shared buffer has {} events, on a fresh buffer {}; first difference at event {at}: shared {:?} vs fresh {:?}", desc(), got.len(), twin.len(), got.get(at), twin.get(at))));
                    }
                    // (a) + (b) + (d) reference
                    if let Err(what) = check(&p, &got) {
                        return Err(Violation::new("C20/reference-mismatch", what.split(|c: char| c == ':' || c.is_ascii_digit()).next().unwrap_or("ref").trim(), format!("op #{i} ({}): {what}", desc())));
                    }
                    // (e) the stream is the same through every Iterator entry point, on the shared buffer
                    adaptors(&p, &got, &mut shared, i, st).map_err(|what| Violation::new("C20/iterator-api-inconsistent", what.split(':').next().unwrap_or("api"), format!("op #{i} ({}): {what}", desc())))?;
                    dirty = false;
                }
                _ => {}
            }
        }
        st.outcome = h.finish();
        Ok(())
    }
    fn nontrivial(&self, plan: &Plan) -> bool {
        if plan.scen == "encoder-as-caller" {
            return true;
        }
        let mut dirty = false;
        for o in &plan.ops {
            match o.k.as_str() {
                "pollute" | "abandon" => dirty = true,
                "run" if dirty => return true,
                _ => {}
            }
        }
        false
    }
    fn reach_probes(&self) -> Vec<&'static str> {
        vec![
            "fired.H1-iterator-abandoned",
            "fired.H2-tick-buffer-polluted",
            "probe.tick-buffer-nonempty-at-construction",
            "probe.abandoned-iterator-left-ticks-in-buffer",
            "probe.streams-with-ticks",
            "probe.ticks-on-reversed-span",
            "probe.zero-tick-distance-with-repeats",
            "probe.length-beyond-MAX_LEN",
            "probe.run-after-pollution-or-abandon",
            "ops.iterator-adaptor-checks",
            "ops.encoder-walked-slider-events",
        ]
    }
}
