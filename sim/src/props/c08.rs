//! C08 — the decoded result depends on the bytes only, not on how they are delivered.
//! Self-differential: decode through the planned transport == decode through `from_bytes`.

use crate::corpus::{encode_text, file_text, gen_osu, Corpus, Enc, ENCS};
use crate::engine::{Scenario, Stats, Tier, Violation};
use crate::json::J;
use crate::plan::Plan;
use crate::probe::{from_bytes_fp, Dec};
use crate::rng::Rng;
use crate::transport::{decode_via, plan_transport, T_BUFREADER, T_SIM};
use std::sync::Arc;

pub struct C08 {
    pub corpus: Arc<Corpus>,
}

impl C08 {
    fn sweep_dims(&self, tier: Tier) -> (Vec<usize>, u64, u64) {
        // (files, schedules per (file,enc), decoders per schedule)
        match tier {
            Tier::Quick => (self.corpus.small.clone(), 8 + 4, 1),
            Tier::Thorough => ((0..self.corpus.files.len()).collect(), 64 + 16, 9),
        }
    }
    fn sweep_len(&self, tier: Tier) -> u64 {
        let (f, s, d) = self.sweep_dims(tier);
        f.len() as u64 * 4 * s * d
    }
}

/// A foreign `DecodeBeatmap` implementor that switches the driver's line filter off and records every line it is handed.
mod see_all {
    use crate::probe::Never;
    use rosu_map::{DecodeBeatmap, DecodeState};
    pub struct SeeAll(pub Vec<(u8, String)>);
    pub struct S(Vec<(u8, String)>);
    impl DecodeState for S {
        fn create(_: i32) -> Self {
            S(Vec::new())
        }
    }
    impl From<S> for SeeAll {
        fn from(s: S) -> Self {
            SeeAll(s.0)
        }
    }
    macro_rules! rec {
        ($($f:ident => $n:expr),*) => { $(
            fn $f(state: &mut S, line: &str) -> Result<(), Never> {
                state.0.push(($n, line.to_owned()));
                Ok(())
            }
        )* }
    }
    impl DecodeBeatmap for SeeAll {
        type Error = Never;
        type State = S;
        fn should_skip_line(_: &str) -> bool {
            false
        }
        rec!(parse_general => 0, parse_editor => 1, parse_metadata => 2, parse_difficulty => 3, parse_events => 4, parse_timing_points => 5,
             parse_colors => 6, parse_hit_objects => 7, parse_variables => 8, parse_catch_the_beat => 9, parse_mania => 10);
    }
}

impl Scenario for C08 {
    fn id(&self) -> &'static str {
        "C08"
    }
    fn level(&self) -> &'static str {
        "exploration"
    }
    fn rule(&self) -> String {
        "Plans = (file from bundled corpus or structured generator) x encoding knob x decoder type x transport (SimReader direct with chunk schedule / first chunk < 3 / Interrupted bursts; SimReader as device under real std BufReader::with_capacity; slice, Cursor, from_str, from_path over a real temp file, Chain, default BufReader). The first indexes are a deterministic sweep of fixed chunk sizes and BufReader capacities over every swept file in all four encodings; the rest are seeded. distinct_nontrivial = distinct plan hashes whose transport is not a one-shot in-memory delivery (>= 2 chunks planned, an Interrupted placement, a BufReader capacity, a chain split or a real file).".into()
    }
    fn assumptions(&self) -> Vec<String> {
        vec![
            "oracle is a self-differential against rosu_map::from_bytes on the same bytes; a defect that changes both sides identically is invisible here (C01/C05/C10 look at those)".into(),
            "fingerprint = hash of the Debug rendering of the decoded value".into(),
            "most inputs are well-formed files; about a fifth carry unusual byte content (doubled BOM, BOM-less UTF-16, storage faults, a line > 64 KiB) because the statement speaks of the byte content alone — whether such content decodes *sensibly* is C01/C10, here only delivery-independence is judged".into(),
        ]
    }
    fn components(&self) -> J {
        J::obj()
            .with("real", J::Arr(vec![J::str("rosu-map: Decoder/BOM sniffer/line reader/driver/all section parsers"), J::str("std::io::{BufReader,Cursor,Chain}"), J::str("real file system for the from_path share")]))
            .with("stub", J::Arr(vec![J::str("byte source: SimReader (BufRead+Read) / SimReader as raw device")]))
    }
    fn total_runs(&self, tier: Tier) -> u64 {
        self.sweep_len(tier)
            + match tier {
                Tier::Quick => 60_000,
                Tier::Thorough => 4_000_000,
            }
    }
    fn plan(&self, seed: u64, idx: u64, tier: Tier) -> Plan {
        let sweep = self.sweep_len(tier);
        if idx < sweep {
            let (files, scheds, decs) = self.sweep_dims(tier);
            let mut i = idx;
            let d = i % decs;
            i /= decs;
            let s = i % scheds;
            i /= scheds;
            let e = i % 4;
            i /= 4;
            let f = files[i as usize];
            let mut p = Plan::new("C08", "sweep", seed, idx);
            p.data = encode_text(&file_text(&self.corpus.files[f].1), ENCS[e as usize]);
            p.set("file", f as i64);
            p.set("enc", e as i64);
            let nchunk = scheds - if tier == Tier::Quick { 4 } else { 16 };
            p.set("dec", if decs == 1 { ((f as u64 + e + s) % 9) as i64 } else { d as i64 });
            if s < nchunk {
                p.set("t", T_SIM);
                p.sched = vec![(s + 1) as u32];
                p.faults.push("R1-chunking-fixed".into());
                if s < 2 {
                    p.faults.push("R2-first-chunk-lt3".into());
                }
            } else {
                p.set("t", T_BUFREADER);
                p.set("cap", (s - nchunk + 1) as i64);
                p.faults.push("R6-bufreader-capacity".into());
            }
            p.note = format!("sweep: {} as {}", self.corpus.files[f].0, ENCS[e as usize].name());
            return p;
        }
        if idx + 3 > self.total_runs(tier) {
            // both tiers (thorough only until round 13; the two of them cost half a second): files of tens of MiB whose meaningful content comes last (assembled at execution time from a
            // filler size and a small tail, so that the plan stays small), through the real file system
            let k = self.total_runs(tier) - idx; // 1 or 2
            let mut p = Plan::new("C08", "giant-file", seed, idx);
            p.set("giant_mib", if k == 1 { 33 } else { 65 });
            p.set("dec", 0);
            p.set("t", crate::transport::T_FROM_PATH);
            p.data = b"[Metadata]\nTitle:the very end\n[HitObjects]\n256,192,1000,1,0\n100,100,2000,2,0,L|200:100,1,100\n".to_vec();
            p.faults.push("content-file-of-tens-of-MiB".into());
            return p;
        }
        let mut rng = Rng::for_run(seed, "C08", idx);
        let mut p = Plan::new("C08", "seeded", seed, idx);
        let enc = *rng.pick(&ENCS);
        if rng.chance(7, 10) {
            let f = self.corpus.pick(&mut rng, 60);
            p.set("file", f as i64);
            let raw = &self.corpus.files[f].1;
            p.data = if enc == Enc::Utf8 && rng.chance(1, 2) { raw.clone() } else { encode_text(&file_text(raw), enc) };
            p.note = self.corpus.files[f].0.clone();
        } else {
            p.data = encode_text(&gen_osu(&mut rng), enc);
            p.note = "generated".into();
        }
        p.set("enc", ENCS.iter().position(|e| *e == enc).unwrap() as i64);
        p.set("dec", rng.below(9) as i64);
        // The statement is about the byte content alone, so a share of the inputs is *not* a well-formed file in one
        // of the four encodings: doubled BOM, UTF-16 without BOM, storage-faulted bytes, a line longer than 64 KiB.
        match rng.below(40) {
            0 | 1 => {
                let mut d = enc.bom().to_vec();
                if d.is_empty() {
                    d = vec![0xEF, 0xBB, 0xBF];
                }
                d.extend_from_slice(&p.data);
                if !p.data.starts_with(&[0xEF, 0xBB, 0xBF]) && !p.data.starts_with(&[0xFF, 0xFE]) && !p.data.starts_with(&[0xFE, 0xFF]) {
                    let mut dd = vec![0xEF, 0xBB, 0xBF];
                    dd.extend_from_slice(&d);
                    d = dd;
                }
                p.data = d;
                p.faults.push("content-doubled-BOM".into());
            }
            2 | 3 => {
                if p.data.starts_with(&[0xFF, 0xFE]) || p.data.starts_with(&[0xFE, 0xFF]) {
                    p.data.drain(..2);
                } else {
                    p.data = encode_text(&crate::corpus::model_text(&p.data), if rng.chance(1, 2) { Enc::Utf16Le } else { Enc::Utf16Be })[2..].to_vec();
                }
                p.faults.push("content-utf16-without-BOM".into());
            }
            4..=7 => {
                for _ in 0..1 + rng.below(3) {
                    let k = crate::corpus::storage_fault(&mut rng, &mut p.data, &self.corpus, crate::corpus::STORAGE_ALL);
                    p.faults.push(format!("content-{k}"));
                }
            }
            11 if rng.chance(1, 5) => {
                // a line longer than 1 MiB
                let n = 1_100_000 + rng.below(200_000);
                let text = crate::corpus::model_text(&p.data);
                let mut lines: Vec<String> = text.split('\n').map(str::to_string).collect();
                let at = rng.below(lines.len() + 1);
                lines.insert(at, format!("Tags:{}", "ab ".repeat(n / 3)));
                p.data = encode_text(&lines.join("\n"), enc);
                p.faults.push("content-line-longer-than-1MiB".into());
            }
            12 | 13 => {
                // record-level faults (incl. edge white space of the non-ASCII kind) on the text
                let text = crate::corpus::model_text(&p.data);
                let nf = 1 + rng.below(3);
                let (t, applied) = crate::corpus::record_faults(&mut rng, &text, nf);
                p.data = encode_text(&t, enc);
                for a in applied {
                    p.faults.push(format!("content-{a}"));
                }
            }
            15 | 16 | 17 => {
                // orphan records: lines of some section's kind in front of the first section header (after the version line
                // if there is one) — they belong to no section
                let text = crate::corpus::model_text(&p.data);
                let mut lines: Vec<String> = text.split('\n').map(str::to_string).collect();
                let first_header = lines.iter().position(|l| l.trim_start().starts_with('[')).unwrap_or(lines.len());
                for _ in 0..1 + rng.below(3) {
                    let rec = *rng.pick(&["2,100,200", "0,0,\"orphan-bg.png\",0,0", "Video,0,\"orphan.mp4\"", "Break,300,900", "0,500,4,1,0,100,1,0", "256,192,1000,1,0", "Title:orphan", "Mode: 3", "Combo1 : 1,2,3", "CircleSize:7", "Sprite,Background,Centre,\"sb.png\",320,240"]);
                    lines.insert(first_header, rec.to_string());
                }
                p.data = encode_text(&lines.join("\n"), enc);
                p.faults.push("content-orphan-records-before-first-header".into());
            }
            18 | 19 => {
                // first-line variants: the version line in all its spellings, in front of (or instead of) the first line
                let text = crate::corpus::model_text(&p.data);
                let v = *rng.pick(&["osu file format v", "osu file format v14 // c", "osu file format vX", " osu file format v14", "osu file format", "osu file format v-5", "osu file format v2147483648", "osu file format v 7 ", "osu file format v0", "osu file format v+9", "osu file format v09", "osu file format v9.0", "OSU FILE FORMAT V9", "osu file format v９", "osu file format v14\u{a0}", "\u{3000}osu file format v14"]);
                let t = if rng.chance(1, 2) {
                    format!("{v}\n{text}")
                } else {
                    let rest = text.split_once('\n').map_or("", |x| x.1);
                    format!("{v}\n{rest}")
                };
                p.data = encode_text(&t, enc);
                p.faults.push("content-first-line-variant".into());
            }
            14 if rng.chance(1, 2) => {
                // the content spells the path of a file that exists (a bundled map, this process's executable, the root
                // directory): it is still just text
                let dir = crate::corpus::resources_dir();
                let f = self.corpus.pick(&mut rng, 4);
                let name = &self.corpus.files[f].0;
                let cand = [format!("{dir}/{name}"), format!("{dir}/{name}\n"), format!("  {dir}/{name}  "), "/proc/self/exe".to_string(), "/".to_string(), ".".to_string(), format!("file://{dir}/{name}")];
                p.data = rng.pick(&cand).clone().into_bytes();
                p.faults.push("content-is-a-path".into());
            }
            9 => {
                let mut m = rng.pick(crate::corpus::MAGICS).to_vec();
                m.extend_from_slice(&p.data);
                p.data = m;
                p.faults.push("content-foreign-magic-prefix".into());
            }
            22 | 23 => {
                // tiny files (shorter than a version line) that still say something, and random short texts
                let tiny = ["[General]\nMode:1", "[General]\nMode: 3", "[Metadata]\nTitle:x", "[Difficulty]\nCircleSize:7", "[Events]\n2,1,9", "[HitObjects]\n1,2,3,1,0", "Mode:1", "[General]\nMode:2\n", "\n[General]\nMode:1", "[Colours]\nCombo1:1,2,3", "osu file format v9", "osu file format v", "[General]"];
                let mut t = rng.pick(&tiny).to_string();
                if rng.chance(1, 3) {
                    t.truncate(rng.below(t.len() + 1));
                }
                p.data = encode_text(&t, enc);
                p.faults.push("content-tiny-file".into());
            }
            10 | 20 | 21 => {
                // a short structural prefix (BOM pieces, NUL, CR/LF) in front of the file
                let n = 1 + rng.below(4);
                let mut m: Vec<u8> = (0..n).map(|_| *rng.pick(&crate::corpus::SHORT_ALPHABET)).collect();
                if rng.chance(1, 2) {
                    // a byte-order mark that is never completed
                    m = rng.pick(&[&[0xFFu8][..], &[0xFE], &[0xEF], &[0xEF, 0xBB], &[0xFF, 0xFF], &[0xEF, 0xBB, 0xEF], &[0xFE, 0xFE], &[0xEF, 0xEF, 0xBB, 0xBF]]).to_vec();
                    p.set("force_small_first_chunk", 1 + rng.below(2) as i64);
                    if rng.chance(1, 2) {
                        // ... on a line of its own
                        m.extend_from_slice(if rng.chance(1, 3) { b"\r\n" } else { b"\n" });
                    }
                    if rng.chance(1, 2) {
                        // ... in a file that has no version line (what follows the prefix is then a header or a record)
                        let text = crate::corpus::model_text(&p.data);
                        let rest: String = text.lines().skip_while(|l| l.trim().is_empty() || l.trim_start().starts_with("osu file format") || l.trim_start().starts_with("//")).collect::<Vec<_>>().join("\n");
                        p.data = rest.into_bytes();
                    }
                }
                m.extend_from_slice(&p.data);
                p.data = m;
                p.faults.push("content-short-structural-prefix".into());
            }
            8 => {
                // one line longer than 64 KiB somewhere in the file
                let n = 65_000 + rng.below(70_000);
                let text = crate::corpus::model_text(&p.data);
                let mut lines: Vec<String> = text.split('\n').map(str::to_string).collect();
                let at = rng.below(lines.len() + 1);
                let filler: String = match rng.below(3) {
                    0 => format!("Tags:{}", "tag ".repeat(n / 4)),
                    1 => format!("//{}", "c".repeat(n)),
                    _ => format!("256,192,1000,2,0,B{},1,100", "|100:100|200:50".repeat(n / 15)),
                };
                lines.insert(at, filler);
                p.data = encode_text(&lines.join("\n"), enc);
                p.faults.push("content-line-longer-than-64KiB".into());
            }
            _ => {}
        }
        plan_transport(&mut rng, &mut p, false);
        if p.has("force_small_first_chunk") && rng.chance(2, 3) {
            p.set("t", if rng.chance(1, 2) { T_SIM } else { T_BUFREADER });
            p.set("cap", p.get("force_small_first_chunk"));
            p.sched = vec![p.get("force_small_first_chunk") as u32, 1 + rng.below(3) as u32, 4096];
            p.eintr.clear();
        }
        if rng.chance(1, 12) {
            // the full decoder through the entry points it has of its own (str::parse, Beatmap::from_bytes,
            // Beatmap::from_path): the same bytes, the same result
            p.set("dec", 0);
            p.set("t", *rng.pick(&[crate::transport::T_FROM_STR, crate::transport::T_FROM_STR, crate::transport::T_FROM_PATH, crate::transport::T_SLICE, crate::transport::T_FROM_PATH_PIPE]));
            p.set("inherent", 1);
            p.set("fname", rng.below(9) as i64);
            p.sched.clear();
            p.eintr.clear();
            p.p.remove("decoy");
        }
        if rng.chance(1, 10) {
            // the real file system more often, under all sorts of file names
            p.set("t", crate::transport::T_FROM_PATH);
            p.set("fname", rng.below(9) as i64);
            p.set("locked", rng.below(3) as i64);
            p.sched.clear();
            p.eintr.clear();
        }
        if rng.chance(1, 4000) {
            // a slow device: a storm of interruptions that lasts over half a second of real time, right at the start or
            // somewhere later (real time only affects how long this run takes; the bytes are the same)
            p.set("t", T_SIM);
            p.sched = vec![64];
            let at = if rng.chance(1, 2) { 0u32 } else { rng.below(20) as u32 };
            p.eintr = (at..at + 45).collect();
            p.set("eintr_sleep_ms", 15);
            p.faults.push("R3-interrupted-storm-in-real-time".into());
        }
        if rng.chance(1, 1500) && p.data.len() > 2 {
            // real-OS, real-time probe (rare: each costs 120 ms): a pipe whose writer pauses in the middle
            p.set("t", crate::transport::T_FROM_PATH_SLOWPIPE);
            p.set("split", (1 + rng.below(p.data.len() - 1)) as i64);
            p.sched.clear();
            p.eintr.clear();
        }
        p
    }
    fn execute(&self, plan: &Plan, st: &mut Stats) -> Result<(), Violation> {
        let assembled;
        let plan = if plan.has("giant_mib") {
            let mib = plan.get("giant_mib").clamp(1, 128) as usize;
            let mut d = Vec::with_capacity(mib * 1_048_576 + plan.data.len() + 64);
            d.extend_from_slice(b"osu file format v14\n\n[Events]\n");
            let filler = format!("//{}\n", "filler ".repeat(146));
            while d.len() < mib * 1_048_576 {
                d.extend_from_slice(filler.as_bytes());
            }
            d.extend_from_slice(&plan.data);
            let mut q = plan.clone();
            q.data = d;
            st.inc("probe.file-of-tens-of-MiB");
            assembled = q;
            &assembled
        } else {
            plan
        };
        let dec = Dec::from_i(plan.get("dec"));
        let base = from_bytes_fp(dec, &plan.data).map_err(|e| e.kind());
        let via = decode_via(plan, dec, st);
        if let Ok(f) = via.out {
            st.outcome = f.0;
        }
        if let Some(rs) = &via.rs {
            if rs.budget_exceeded {
                return Err(Violation::new("C08/livelock", "poll-budget", format!("reader polled {} times for {} bytes without finishing", rs.polls, plan.data.len())));
            }
            if rs.overconsume {
                return Err(Violation::new("C08/overconsume", "consume>window", "consume() called with more than fill_buf exposed"));
            }
        }
        // a foreign decoder type that sees every line (it overrides the blank-line / comment filter): the history of lines
        // it is handed must not depend on the delivery either
        if (plan.get("t") == T_SIM || plan.get("t") == T_BUFREADER) && plan.data.len() <= 200_000 && !plan.has("fault_at") {
            use rosu_map::DecodeBeatmap as _;
            let whole = see_all::SeeAll::decode(&plan.data[..]).map(|r| r.0).map_err(|e| e.kind());
            let tail = plan.get("tail").max(0) as usize;
            let mut dev = crate::simio::SimReader::new(&plan.data, &plan.sched, tail, &plan.eintr, None);
            let chunked = if plan.get("t") == T_BUFREADER {
                see_all::SeeAll::decode(std::io::BufReader::with_capacity(plan.get_or("cap", 8).max(1) as usize, crate::transport::DevRef(&mut dev))).map(|r| r.0).map_err(|e| e.kind())
            } else {
                see_all::SeeAll::decode(&mut dev).map(|r| r.0).map_err(|e| e.kind())
            };
            st.inc("ops.see-everything-recorder-differential");
            if whole != chunked {
                let at = match (&whole, &chunked) {
                    (Ok(a), Ok(b)) => a.iter().zip(b.iter()).position(|(x, y)| x != y).unwrap_or(a.len().min(b.len())),
                    _ => 0,
                };
                return Err(Violation::new("C08/mismatch", "lines-seen-by-a-foreign-decoder", format!("a decoder type that overrides should_skip_line (sees blank lines and comments too) is handed a different history of lines under this delivery than from the whole slice; first difference at delivery #{at}: {:?} vs {:?}", chunked.as_ref().ok().and_then(|v| v.get(at)), whole.as_ref().ok().and_then(|v| v.get(at)))));
            }
        }
        if via.out != base {
            let first_lt3 = via.rs.as_ref().map_or(false, |r| matches!(r.first_chunk, Some(1 | 2)));
            let sig = if first_lt3 { "first-chunk-lt-3" } else { "delivery-dependent" };
            return Err(Violation::new(
                "C08/mismatch",
                sig,
                format!("decoder {} via {}: {:?} but from_bytes gives {:?} (len {}, first chunk {:?})", dec.name(), crate::transport::transport_name(plan.get("t")), via.out, base, plan.data.len(), via.rs.as_ref().and_then(|r| r.first_chunk)),
            ));
        }
        Ok(())
    }
    fn nontrivial(&self, plan: &Plan) -> bool {
        let t = plan.get("t");
        match t {
            T_SIM => !plan.sched.is_empty() || !plan.eintr.is_empty(),
            crate::transport::T_BUFREADER | crate::transport::T_CHAIN | crate::transport::T_FROM_PATH | crate::transport::T_FROM_PATH_PIPE | crate::transport::T_FROM_PATH_SLOWPIPE => true,
            _ => false,
        }
    }
    fn reach_probes(&self) -> Vec<&'static str> {
        vec![
            "fired.R1-chunking(runs-with>=2-chunks)",
            "fired.R2-first-chunk-lt3",
            "fired.R3-interrupted",
            "fired.R6-std-BufReader-composition",
            "probe.boundary-inside-BOM",
            "probe.boundary-between-CR-and-LF",
            "probe.boundary-between-LE-LF-and-its-00",
            "probe.boundary-inside-utf8-sequence",
            "transport.from_path-real-fs",
            "transport.from_path-pipe-via-procfs",
            "transport.from_path-slow-pipe-two-parts",
            "realfs.same-path-decoy-decoded-first",
            "transport.chain-of-slices",
        ]
    }
}
