//! C09 — I/O faults are surfaced, never swallowed or turned into partial results.
//! Fault enumeration: every byte offset of every small bundled file (dense samples of the large ones) x error kinds
//! on read; every output offset x {hard error, Ok(0)} on write, directly and under a by-value BufWriter; flush failure;
//! short writes; Interrupted on both sides; four real-OS probes.

use crate::corpus::{gen_osu, Corpus};
use crate::engine::{Scenario, Stats, Tier, Violation};
use crate::json::J;
use crate::plan::Plan;
use crate::probe::Dec;
use crate::rng::{Fnv, Rng};
use crate::simio::{kind_name, kind_of, SimWriter, WriteFaultKind, KINDS};
use crate::transport::{decode_via, plan_transport, read_fault_of, T_BUFREADER, T_SIM};
use rosu_map::Beatmap;
use std::cell::RefCell;
use std::io::{BufWriter, ErrorKind};
use std::sync::Arc;

pub struct C09 {
    pub corpus: Arc<Corpus>,
    /// (file index, clean encoding length)
    clean_len: Vec<usize>,
    /// number of `write` calls an unbuffered sink sees while a file's map is encoded (capped)
    write_calls: Vec<u64>,
    quick: Layout,
    thorough: Layout,
}

#[derive(Default, Clone)]
struct Layout {
    /// read sweep: cumulative plan counts per file, with the offsets each file sweeps
    read_offsets: Vec<Vec<u32>>,
    read_variants: u64,
    read_cum: Vec<u64>,
    write_offsets: Vec<Vec<u32>>,
    write_cum: Vec<u64>,
    extra_per_file: u64,
    seeded: u64,
}

const OSFS: u64 = 7;
/// every input of length <= 2 over the structural alphabet x every subset of Interrupted at device calls 0..4 x two transports
const TINY: u64 = (1 + 12 + 144) * 16 * 2;
const WRITE_VARIANTS: u64 = 4;

fn offsets_for(len: usize, dense_edge: usize, stride: usize) -> Vec<u32> {
    if len <= 8192 {
        return (0..=len as u32).collect();
    }
    let mut v: Vec<u32> = (0..dense_edge.min(len) as u32).collect();
    v.extend((dense_edge..len.saturating_sub(dense_edge)).step_by(stride).map(|x| x as u32));
    v.extend((len.saturating_sub(dense_edge)..=len).map(|x| x as u32));
    v.sort_unstable();
    v.dedup();
    v
}

impl C09 {
    pub fn new(corpus: Arc<Corpus>) -> C09 {
        let clean_len: Vec<usize> = corpus
            .files
            .iter()
            .map(|(_, b)| {
                let mut m: Beatmap = rosu_map::from_bytes(b).unwrap_or_default();
                let mut out = Vec::new();
                let _ = m.encode(&mut out);
                out.len()
            })
            .collect();
        struct Count(u64);
        impl std::io::Write for Count {
            fn write(&mut self, b: &[u8]) -> std::io::Result<usize> {
                self.0 += 1;
                Ok(b.len())
            }
            fn flush(&mut self) -> std::io::Result<()> {
                Ok(())
            }
        }
        let write_calls: Vec<u64> = corpus
            .files
            .iter()
            .map(|(_, b)| {
                let mut m: Beatmap = rosu_map::from_bytes(b).unwrap_or_default();
                let mut c = Count(0);
                let _ = m.encode(&mut c);
                if b.len() <= 8192 { c.0.min(6000) } else { 0 }
            })
            .collect();
        let wc = write_calls.clone();
        let mk = |tier: Tier| -> Layout {
            let (edge, stride, rv, seeded) = match tier {
                Tier::Quick => (768, 977, 2u64, 40_000u64),
                Tier::Thorough => (4096, 8, 10u64, 1_500_000u64),
            };
            let mut l = Layout { read_variants: rv, extra_per_file: 24, seeded, ..Default::default() };
            let mut cum = 0u64;
            for (_, b) in &corpus.files {
                let offs = offsets_for(b.len(), edge, stride);
                let variants = if b.len() <= 8192 { 12 } else { rv };
                cum += offs.len() as u64 * variants;
                l.read_cum.push(cum);
                l.read_offsets.push(offs);
            }
            let mut cum = 0u64;
            for (i, _) in corpus.files.iter().enumerate() {
                let n = clean_len[i];
                let mut offs = offsets_for(n, edge, stride * 2);
                offs.retain(|&o| (o as usize) < n.max(1));
                cum += offs.len() as u64 * WRITE_VARIANTS + l.extra_per_file + wc[i];
                l.write_cum.push(cum);
                l.write_offsets.push(offs);
            }
            l
        };
        let quick = mk(Tier::Quick);
        let thorough = mk(Tier::Thorough);
        C09 { corpus, clean_len, write_calls, quick, thorough }
    }
    fn layout(&self, tier: Tier) -> &Layout {
        match tier {
            Tier::Quick => &self.quick,
            Tier::Thorough => &self.thorough,
        }
    }
}

thread_local! {
    /// memo: hash of file bytes -> (decoded map, clean encoding). Pure memoisation; never changes a result.
    static CLEAN: RefCell<Option<(u64, usize, Beatmap, Vec<u8>)>> = const { RefCell::new(None) };
}

fn with_clean<T>(data: &[u8], f: impl FnOnce(&Beatmap, &[u8]) -> T) -> Result<T, Violation> {
    let mut h = Fnv::new();
    h.bytes(data);
    let h = h.finish();
    CLEAN.with(|c| {
        let mut c = c.borrow_mut();
        let hit = matches!(&*c, Some((hh, l, _, _)) if *hh == h && *l == data.len());
        if !hit {
            let map: Beatmap = rosu_map::from_bytes(data).map_err(|e| Violation::new("C09/setup-decode-failed", "setup", format!("from_bytes failed without faults: {e}")))?;
            let mut m2 = map.clone();
            let mut clean = Vec::new();
            m2.encode(&mut clean).map_err(|e| Violation::new("C09/setup-encode-failed", "setup", format!("encode into a Vec failed without faults: {e}")))?;
            *c = Some((h, data.len(), map, clean));
        }
        let (_, _, m, cl) = c.as_ref().unwrap();
        Ok(f(m, cl))
    })
}

impl Scenario for C09 {
    fn id(&self) -> &'static str {
        "C09"
    }
    fn level(&self) -> &'static str {
        "fault_enumeration"
    }
    fn rule(&self) -> String {
        "Enumerated: (a) read faults — for every bundled file, every byte offset 0..=len (all offsets for files <= 8 KiB; dense edges + stride for the four large files) x the property's 5 error kinds (+ one of 15 further kinds rotating with the offset) x {SimReader direct, SimReader under std BufReader} with one-shot/sticky, chunk size, decoder type and an Interrupted placement derived from the offset; (b) write faults — for every map decoded from the corpus, every output offset x {hard error, Ok(0)} x {direct, by-value std BufWriter}, plus flush failure of every kind incl. Interrupted (sticky or first flush only), short-write schedules and Interrupted-only sinks per file; (c) seven real-OS probes (/dev/full, missing directory, directory as file, missing file, successful temp file, a zero-length special file whose reads fail through both from_path entry points); then seeded combinations (generated files, random transports before the fault, Interrupted-only plans). distinct_nontrivial = distinct plan hashes that plan at least one fault or a transient interruption.".into()
    }
    fn assumptions(&self) -> Vec<String> {
        vec![
            "'returns that error' is read as: same ErrorKind, and the device's own error object still reachable from the returned error (as its payload or along the payload's source chain); a wrapper that keeps the source passes, an error rebuilt from kind and text does not. WriteZero made by std for an Ok(0) sink has no device error to carry".into(),
            "Interrupted reported by flush itself: the statement does not say whether flush is retried, so both 'the error is returned' and 'a later flush succeeded' are accepted; Ok while the last flush the sink saw had failed is a swallowed error".into(),
            "Interrupted bursts are finite (<= 3 consecutive), otherwise std's retry loops livelock legitimately".into(),
            "large files: offsets are sampled (dense at both ends + stride), not exhaustive".into(),
        ]
    }
    fn components(&self) -> J {
        J::obj()
            .with("real", J::Arr(vec![J::str("rosu-map decoder and encoder"), J::str("std::io::{BufReader,BufWriter}"), J::str("real OS for the five osfs probes")]))
            .with("stub", J::Arr(vec![J::str("byte source SimReader"), J::str("byte sink SimWriter")]))
    }
    fn total_runs(&self, tier: Tier) -> u64 {
        let _ = &self.write_calls;
        let l = self.layout(tier);
        OSFS + TINY + l.read_cum.last().copied().unwrap_or(0) + l.write_cum.last().copied().unwrap_or(0) + l.seeded
    }
    fn plan(&self, seed: u64, idx: u64, tier: Tier) -> Plan {
        let l = self.layout(tier);
        let mut i = idx;
        if i < OSFS {
            let mut p = Plan::new("C09", "osfs", seed, idx);
            p.set("probe", i as i64);
            p.data = self.corpus.files[self.corpus.small[0]].1.clone();
            p.faults.push("real-OS".into());
            return p;
        }
        i -= OSFS;
        if i < TINY {
            let tr = i % 2;
            let mask = (i / 2) % 16;
            let mut k = i / 32;
            let a = crate::corpus::SHORT_ALPHABET;
            let mut p = Plan::new("C09", "seeded-read-interrupted-only", seed, idx);
            if k >= 1 {
                k -= 1;
                if k < 12 {
                    p.data = vec![a[k as usize]];
                } else {
                    k -= 12;
                    p.data = vec![a[(k % 12) as usize], a[(k / 12) as usize]];
                }
            }
            p.eintr = (0..4u32).filter(|b| mask & (1 << b) != 0).collect();
            // bursts stay finite: at most 3 consecutive
            if p.eintr.len() == 4 {
                p.eintr.pop();
            }
            p.set("dec", ((i / 32) % 9) as i64);
            if tr == 0 {
                p.set("t", T_SIM);
                p.sched = vec![1];
            } else {
                p.set("t", T_BUFREADER);
                p.set("cap", 1 + (i / 32 % 3) as i64);
                p.sched = vec![1];
            }
            p.faults.push("R3-interrupted-around-EOF-of-tiny-input".into());
            return p;
        }
        i -= TINY;
        let rtotal = l.read_cum.last().copied().unwrap_or(0);
        if i < rtotal {
            let f = l.read_cum.partition_point(|&c| c <= i);
            let base = if f == 0 { 0 } else { l.read_cum[f - 1] };
            let j = i - base;
            let data = &self.corpus.files[f].1;
            let variants = if data.len() <= 8192 { 12 } else { l.read_variants };
            let o = l.read_offsets[f][(j / variants) as usize] as usize;
            let v = j % variants;
            // small files: v = kind*2 + transport; large files: rotate kind and transport with the offset
            // small files: the five kinds named by the property x two transports at every offset, plus one of the other
            // fifteen kinds (rotating with the offset) x two transports
            let (kind, tr) = if variants == 12 { (if v < 10 { (v / 2) as usize } else { 5 + o % 15 }, v % 2) } else { ((o + v as usize) % KINDS.len(), (o as u64 / 3 + v) % 2) };
            let mut p = Plan::new("C09", "read-sweep", seed, idx);
            p.data = data.clone();
            p.set("file", f as i64);
            p.set("fault_at", o as i64);
            p.set("fault_kind", kind as i64);
            p.set("fault_sticky", ((o + kind) % 2) as i64);
            p.set("dec", if o % 2 == 0 { 0 } else { ((o / 2 + kind) % 9) as i64 });
            if tr == 0 {
                p.set("t", T_SIM);
                p.sched = vec![1 + (o % 7) as u32];
                if data.len() > 8192 {
                    p.sched = vec![64 + (o % 4000) as u32];
                }
            } else {
                p.set("t", T_BUFREADER);
                p.set("cap", if data.len() > 8192 { 512 + (o % 8192) as i64 } else { 1 + (o % 16) as i64 });
                p.sched = vec![1 + (o % 13) as u32 * if data.len() > 8192 { 97 } else { 1 }];
            }
            if o % 3 == 0 {
                p.eintr = vec![(o % 5) as u32, (o % 5) as u32 + 1];
                p.faults.push("R3-interrupted".into());
            }
            p.faults.push(format!("R4-{}-at-{}", kind_name(kind_of(kind as i64)), o));
            p.note = self.corpus.files[f].0.clone();
            return p;
        }
        i -= rtotal;
        let wtotal = l.write_cum.last().copied().unwrap_or(0);
        if i < wtotal {
            let f = l.write_cum.partition_point(|&c| c <= i);
            let base = if f == 0 { 0 } else { l.write_cum[f - 1] };
            let j = i - base;
            let mut p = Plan::new("C09", "write-sweep", seed, idx);
            p.data = self.corpus.files[f].1.clone();
            p.set("file", f as i64);
            p.note = self.corpus.files[f].0.clone();
            let noffs = l.write_offsets[f].len() as u64;
            if j < noffs * WRITE_VARIANTS {
                let o = l.write_offsets[f][(j / WRITE_VARIANTS) as usize] as usize;
                let v = j % WRITE_VARIANTS;
                p.set("w_at", o as i64);
                if v < 2 {
                    p.set("w_kind", (o % KINDS.len()) as i64);
                    p.set("w_sticky", (o % 2) as i64);
                    p.faults.push(format!("W3-{}-at-{}", kind_name(KINDS[o % KINDS.len()]), o));
                } else {
                    p.set("w_kind", -1); // Ok(0)
                    p.set("w_sticky", 1);
                    p.faults.push(format!("W4-zero-at-{o}"));
                }
                if v % 2 == 1 {
                    p.set("bufw", 1 + (o % 64) as i64);
                    p.faults.push("W6-by-value-BufWriter".into());
                }
                if o % 3 == 0 {
                    p.set("accept", 1 + (o % 9) as i64);
                    p.faults.push("W1-short-writes".into());
                }
                if o % 4 == 0 {
                    p.eintr = vec![(o % 7) as u32, (o % 7) as u32 + 2];
                    p.faults.push("W2-interrupted".into());
                }
            } else {
                let k = j - noffs * WRITE_VARIANTS; // 0..24 extras per file, then one plan per write call
                p.scen = "write-extra".into();
                match k {
                    k if k >= l.extra_per_file => {
                        // Interrupted on exactly one write call, for every write call of the encoding (unbuffered sink):
                        // every hand-written write loop gets its turn
                        p.eintr = vec![(k - l.extra_per_file) as u32];
                        p.faults.push("W2-interrupted-at-one-write-call".into());
                    }
                    0 => {
                        p.set("flush_err", 0);
                        p.faults.push("W5-flush-error".into());
                    }
                    1 => {
                        p.set("flush_err", 2);
                        p.set("bufw", 8192);
                        p.faults.push("W5-flush-error".into());
                        p.faults.push("W6-by-value-BufWriter".into());
                    }
                    3 => {
                        p.set("flush_err", 100);
                        p.faults.push("W5-flush-interrupted".into());
                    }
                    4 => {
                        p.set("flush_err", 100);
                        p.set("flush_once", 1);
                        p.set("bufw", 4096);
                        p.faults.push("W5-flush-interrupted".into());
                        p.faults.push("W6-by-value-BufWriter".into());
                    }
                    5..=8 => {
                        p.set("flush_err", (5 + (k - 5) * 4 + (f as u64 % 4)) as i64);
                        p.faults.push("W5-flush-error".into());
                    }
                    2 => {
                        p.set("flush_err", 3);
                        p.set("bufw", 7);
                        p.faults.push("W5-flush-error".into());
                        p.faults.push("W6-by-value-BufWriter".into());
                    }
                    _ => {
                        // short writes / Interrupted only: outcome must be unchanged
                        p.set("accept", k as i64 - 2);
                        p.faults.push("W1-short-writes".into());
                        if k % 4 != 0 {
                            p.eintr = (0..6).map(|x| (x * (k as u32 + 1)) + x / 2).collect();
                            p.eintr.sort_unstable();
                            p.eintr.dedup();
                            p.faults.push("W2-interrupted".into());
                        }
                        if k % 3 == 0 {
                            p.set("bufw", (k * 3) as i64);
                            p.faults.push("W6-by-value-BufWriter".into());
                        }
                    }
                }
            }
            return p;
        }
        // seeded combinations
        let mut rng = Rng::for_run(seed, "C09", idx);
        let mut p = Plan::new("C09", "seeded-read", seed, idx);
        if rng.chance(3, 4) {
            let f = self.corpus.pick(&mut rng, 80);
            p.data = self.corpus.files[f].1.clone();
            p.set("file", f as i64);
        } else {
            p.data = gen_osu(&mut rng).into_bytes();
        }
        if rng.chance(1, 5) {
            let e = *rng.pick(&crate::corpus::ENCS);
            p.data = crate::corpus::transcode(&p.data, e);
        }
        if rng.chance(1, 150) {
            // a line longer than 1 MiB (faults and interruptions then also land deep inside one line)
            let n = 1_100_000 + rng.below(100_000);
            let mut d = p.data.clone();
            let at = d.iter().position(|b| *b == b'\n').map_or(0, |x| x + 1);
            if std::str::from_utf8(&d).is_ok() {
                let line = format!("Tags:{}\n", "ab ".repeat(n / 3));
                d.splice(at..at, line.bytes());
                p.data = d;
            }
        }
        let long_line = p.data.len() > 1_000_000;
        if long_line && rng.chance(1, 2) {
            // a > 1 MiB line: interruptions spread over the whole read, so that several land deep inside the line
            p.scen = "seeded-read-interrupted-only".into();
            p.set("dec", *rng.pick(&[0i64, 3, 8]));
            p.set("t", if rng.chance(1, 2) { T_SIM } else { T_BUFREADER });
            let chunk = *rng.pick(&[512u32, 4096, 8192, 65_536]);
            p.sched = vec![chunk];
            p.set("cap", *rng.pick(&[512i64, 8192, 65_536]));
            let calls = (p.data.len() as u32 / chunk.min(p.get("cap") as u32).max(1)) + 4;
            let mut e: Vec<u32> = (0..10).map(|_| rng.below(calls as usize) as u32).collect();
            e.sort_unstable();
            e.dedup();
            p.eintr = e;
            p.faults.push("R3-interrupted-deep-inside-a-1MiB-line".into());
            return p;
        }
        if rng.chance(3, 5) {
            p.set("dec", rng.below(9) as i64);
            plan_transport(&mut rng, &mut p, true);
            if rng.chance(3, 4) {
                // half of the faults land on offsets where the line reader does something special (around line ends,
                // inside multi-byte characters, on the bytes of UTF-16 units that contain CR / LF bytes)
                let offs = if rng.chance(1, 2) { crate::transport::interesting_offsets(&p.data, 4096) } else { vec![] };
                let at = if offs.is_empty() { rng.below(p.data.len() + 1) } else { *rng.pick(&offs) + rng.below(2) };
                p.set("fault_at", at as i64);
                p.set("fault_kind", if rng.chance(1, 2) { rng.below(5) } else { rng.below(KINDS.len()) } as i64);
                p.set("fault_sticky", rng.below(2) as i64);
                p.faults.push("R4-hard-read-error".into());
            } else {
                p.scen = "seeded-read-interrupted-only".into();
                if p.eintr.is_empty() {
                    p.eintr = vec![rng.below(4) as u32, 4 + rng.below(30) as u32];
                }
            }
        } else {
            p.scen = "seeded-write".into();
            let est = p.data.len() + 200;
            match rng.below(5) {
                0 => {
                    // 100 = Interrupted reported by flush itself
                    p.set("flush_err", if rng.chance(1, 4) { 100 } else { rng.below(KINDS.len()) as i64 });
                    if rng.chance(1, 3) {
                        p.set("flush_once", 1);
                    }
                }
                1 => {} // transient only
                _ => {
                    p.set("w_at", rng.below(est) as i64);
                    p.set("w_kind", if rng.chance(1, 3) { -1 } else { rng.below(KINDS.len()) as i64 });
                    p.set("w_sticky", if p.get("w_kind") < 0 { 1 } else { rng.below(2) as i64 });
                }
            }
            if rng.chance(1, 2) {
                p.set("bufw", rng.small(8192) as i64);
            }
            if rng.chance(1, 2) {
                p.set("accept", rng.small(512) as i64);
            }
            if rng.chance(1, 2) {
                let m = 1 + rng.below(4);
                let mut e: Vec<u32> = (0..m).flat_map(|_| {
                    let at = rng.below(60) as u32;
                    (0..1 + rng.below(2) as u32).map(move |b| at + b)
                }).collect();
                e.sort_unstable();
                e.dedup();
                p.eintr = e;
            }
        }
        p
    }

    fn execute(&self, plan: &Plan, st: &mut Stats) -> Result<(), Violation> {
        match plan.scen.as_str() {
            "osfs" => exec_osfs(plan, st),
            "read-sweep" | "seeded-read" | "seeded-read-interrupted-only" => exec_read(plan, st),
            _ => exec_write(plan, st),
        }
    }
    fn nontrivial(&self, plan: &Plan) -> bool {
        plan.has("fault_at") || plan.has("w_at") || plan.has("flush_err") || !plan.eintr.is_empty() || plan.has("accept") || plan.scen == "osfs"
    }
    fn reach_probes(&self) -> Vec<&'static str> {
        vec![
            "fired.R4-hard-read-error",
            "fired.R3-interrupted",
            "fired.W3-hard-write-error",
            "fired.W4-zero-length-write",
            "fired.W5-flush-error",
            "fired.W1-short-writes",
            "fired.W2-interrupted-write",
            "fired.W6-by-value-BufWriter",
            "probe.read-fault-phase.bom-sniff",
            "probe.read-fault-phase.first-line",
            "probe.read-fault-phase.body",
            "probe.read-fault-phase.eof-poll",
            "probe.read-fault-on-LE-partner-byte",
            "probe.error-payload-identity-preserved",
            "osfs.dev-full-returned-err",
        ]
    }
    fn shrink_candidates<'a>(&'a self, plan: &'a Plan) -> Box<dyn Iterator<Item = Plan> + 'a> {
        // data shrinking would move the fault offsets; shrink transport and knobs only, then lines with the offset clamped
        let mut c = plan.clone();
        c.set("noshrink_data", 1);
        let simple: Vec<Plan> = {
            let mut v = Vec::new();
            for k in ["bufw", "accept", "cap"] {
                if plan.has(k) {
                    let mut d = plan.clone();
                    d.p.remove(k);
                    if k == "cap" {
                        d.set("t", T_SIM);
                    }
                    v.push(d);
                }
            }
            if plan.get("dec") != 0 {
                let mut d = plan.clone();
                d.set("dec", 0);
                v.push(d);
            }
            v
        };
        let tail: Vec<Plan> = crate::shrink::generic_candidates(plan)
            .map(|mut d| {
                if d.has("fault_at") {
                    let m = d.data.len() as i64;
                    if d.get("fault_at") > m {
                        d.set("fault_at", m);
                    }
                }
                d
            })
            .take(3000)
            .collect();
        Box::new(simple.into_iter().chain(tail))
    }
}

fn exec_read(plan: &Plan, st: &mut Stats) -> Result<(), Violation> {
    let dec = Dec::from_i(plan.get("dec"));
    let fault = read_fault_of(plan);
    let via = decode_via(plan, dec, st);
    if let Ok(f) = via.out {
        st.outcome = f.0;
    }
    let rs = via.rs.clone().unwrap_or_default();
    if rs.budget_exceeded {
        return Err(Violation::new("C09/read-livelock", "poll-budget", format!("{} polls for {} bytes", rs.polls, plan.data.len())));
    }
    if let Some(f) = fault {
        if rs.hard_fired > 0 {
            // phase probes
            let pos = rs.fault_pos.unwrap_or(0);
            let (enc, skip) = crate::corpus::sniff(&plan.data);
            let first_lf = plan.data.iter().position(|b| *b == b'\n').unwrap_or(plan.data.len());
            let _ = skip;
            st.inc(if pos < 3 {
                "probe.read-fault-phase.bom-sniff"
            } else if pos >= plan.data.len() {
                "probe.read-fault-phase.eof-poll"
            } else if pos <= first_lf {
                "probe.read-fault-phase.first-line"
            } else {
                "probe.read-fault-phase.body"
            });
            if enc == crate::corpus::Enc::Utf16Le && pos > 0 && pos < plan.data.len() && plan.data[pos - 1] == b'\n' && (pos - skip) % 2 == 1 {
                st.inc("probe.read-fault-on-LE-partner-byte");
            }
            match via.out {
                Err(k) if k == f.kind => {
                    if via.err_is_injected {
                        st.inc("probe.error-payload-identity-preserved");
                        Ok(())
                    } else {
                        // "returns that error": the reader's error object (here marked with a payload) must still be
                        // reachable from what decode returns — as the payload itself or along its source chain. An error
                        // rebuilt from kind and text loses the payload and raw_os_error a caller may rely on.
                        Err(Violation::new("C09/read-error-replaced", "payload-lost", format!("injected {} at offset {} ({}): decode::<{}> returned an error of the same kind, but it is not the reader's error (its payload is gone from the error and from its source chain)", kind_name(f.kind), f.at, if f.sticky { "sticky" } else { "one-shot" }, dec.name())))
                    }
                }
                Err(k) => Err(Violation::new("C09/read-error-kind-changed", "kind-changed", format!("injected {} at offset {} ({}), decode::<{}> returned Err of kind {}", kind_name(f.kind), f.at, if f.sticky { "sticky" } else { "one-shot" }, dec.name(), kind_name(k)))),
                Ok(_) => Err(Violation::new("C09/read-error-swallowed", "swallowed", format!("injected {} at offset {} of {} ({}), but decode::<{}> returned Ok", kind_name(f.kind), f.at, plan.data.len(), if f.sticky { "sticky" } else { "one-shot" }, dec.name()))),
            }
        } else {
            // the decoder never asked for the faulty byte: it must have stopped early — compare with the fault-free run
            let mut q = plan.clone();
            q.p.remove("fault_at");
            let mut s2 = Stats::default();
            let base = decode_via(&q, dec, &mut s2);
            st.inc("probe.read-fault-never-reached");
            if base.out != via.out {
                return Err(Violation::new("C09/unfired-fault-changed-outcome", "unfired", format!("{:?} vs {:?}", via.out, base.out)));
            }
            Ok(())
        }
    } else {
        // Interrupted only: identical to the same delivery without the interruptions
        let mut q = plan.clone();
        q.eintr.clear();
        let mut s2 = Stats::default();
        let base = decode_via(&q, dec, &mut s2);
        if base.out != via.out {
            return Err(Violation::new("C09/interrupted-changed-outcome", "eintr", format!("decode::<{}> with Interrupted at device calls {:?}: {:?}; without: {:?}", dec.name(), plan.eintr, via.out, base.out)));
        }
        Ok(())
    }
}

fn exec_write(plan: &Plan, st: &mut Stats) -> Result<(), Violation> {
    let r = with_clean(&plan.data, |map, clean| -> Result<(), Violation> {
        let mut map = map.clone();
        let fault = if plan.has("w_at") {
            let what = if plan.get("w_kind") < 0 { WriteFaultKind::Zero } else { WriteFaultKind::Error(kind_of(plan.get("w_kind"))) };
            Some((plan.get("w_at").max(0) as usize, what, plan.get("w_sticky") != 0))
        } else {
            None
        };
        let flush_err = if plan.has("flush_err") { Some(if plan.get("flush_err") == 100 { ErrorKind::Interrupted } else { kind_of(plan.get("flush_err")) }) } else { None };
        let accept = if plan.has("accept") { vec![plan.get("accept").max(1) as u32] } else { vec![] };
        let (mut sink, state) = SimWriter::new(accept, plan.eintr.clone(), fault, flush_err, clean.len());
        sink.flush_once = plan.get("flush_once") != 0;
        let res = if plan.has("bufw") {
            st.inc("fired.W6-by-value-BufWriter");
            map.encode(BufWriter::with_capacity(plan.get("bufw").max(1) as usize, sink))
        } else {
            map.encode(sink)
        };
        if res.is_err() {
            // the sink failed and encode said so: the map itself must be none the worse — encoding it once more into memory
            // gives the clean text
            let mut again = Vec::new();
            let r2 = map.encode(&mut again);
            st.inc("probe.encode-again-after-a-failed-encode");
            if r2.is_err() || again != *clean {
                return Err(Violation::new("C09/failed-encode-damaged-the-map", "second-encode", format!("after an encode that returned an error, encoding the same map into a Vec gives {} bytes (result {:?}), the clean encoding has {}", again.len(), r2.map_err(|e| e.kind()), clean.len())));
            }
        }
        let s = state.borrow();
        st.add("steps.writer_calls", s.calls + s.flush_calls);
        st.add("fired.W1-short-writes", s.short_writes);
        st.add("fired.W2-interrupted-write", s.eintr_fired);
        st.add("fired.W4-zero-length-write", s.zero_returned);
        if flush_err.is_some() {
            st.add("fired.W5-flush-error", u64::from(s.flush_calls > 0));
        }
        if fault.is_some() && s.errors_raised > 0 && flush_err.is_none() {
            st.inc("fired.W3-hard-write-error");
        }
        let mut h = Fnv::new();
        h.bytes(&s.data);
        st.outcome = h.finish() ^ u64::from(res.is_ok());
        if s.budget_exceeded {
            return Err(Violation::new("C09/write-livelock", "write-budget", format!("{} write calls for {} bytes", s.calls, clean.len())));
        }
        if !clean.starts_with(&s.data) {
            let at = s.data.iter().zip(clean.iter()).position(|(a, b)| a != b).unwrap_or(clean.len().min(s.data.len()));
            return Err(Violation::new("C09/sink-not-a-prefix", "prefix", format!("bytes accepted by the sink ({}) are not a prefix of the clean encoding ({}); first difference at {at}", s.data.len(), clean.len())));
        }
        // a flush answered with Interrupted: the statement does not say whether flush is retried, so either the error is
        // returned or a later flush succeeded — but Ok while the last flush the sink saw had failed hides unflushed data
        if s.flush_interrupted > 0 {
            st.inc("fired.W5-flush-interrupted");
            return match &res {
                Ok(()) if s.last_flush_failed => Err(Violation::new("C09/write-error-swallowed", "swallowed", format!("flush answered Interrupted {} time(s), no later flush succeeded, yet encode returned Ok (bufw {:?})", s.flush_interrupted, plan.p.get("bufw")))),
                Ok(()) if s.data != *clean => Err(Violation::new("C09/transient-changed-output", "short-or-eintr", format!("encode returned Ok but sink holds {} bytes, clean encoding has {}", s.data.len(), clean.len()))),
                Ok(()) => Ok(()),
                Err(e) if e.kind() == ErrorKind::Interrupted || s.errors_raised > 0 || s.zero_returned > 0 => Ok(()),
                Err(e) => Err(Violation::new("C09/spurious-write-error", "spurious", format!("flush answered Interrupted, encode returned Err({e}) of another kind"))),
            };
        }
        let fault_fired = s.errors_raised > 0 || s.zero_returned > 0;
        match (&res, fault_fired) {
            (Ok(()), true) => Err(Violation::new(
                "C09/write-error-swallowed",
                "swallowed",
                format!("sink raised {} error(s) / returned Ok(0) {} time(s) (fault {:?}, flush_err {:?}, bufw {:?}) but encode returned Ok; sink holds {} of {} bytes", s.errors_raised, s.zero_returned, fault, flush_err, plan.p.get("bufw"), s.data.len(), clean.len()),
            )),
            (Ok(()), false) => {
                if s.data != *clean {
                    return Err(Violation::new("C09/transient-changed-output", "short-or-eintr", format!("encode returned Ok but sink holds {} bytes, clean encoding has {}", s.data.len(), clean.len())));
                }
                Ok(())
            }
            (Err(e), true) => {
                let want = match (fault, flush_err) {
                    (Some((_, WriteFaultKind::Error(k), _)), _) if s.errors_raised > 0 && s.fault_fired_at.is_some() => Some(k),
                    (Some((_, WriteFaultKind::Zero, _)), _) if s.zero_returned > 0 => Some(ErrorKind::WriteZero),
                    (_, Some(k)) => Some(k),
                    _ => None,
                };
                if let Some(k) = want {
                    if e.kind() != k {
                        return Err(Violation::new("C09/write-error-kind-changed", "kind-changed", format!("sink failed with {} but encode returned kind {}", kind_name(k), kind_name(e.kind()))));
                    }
                }
                if crate::simio::carries_injected(e) {
                    st.inc("probe.error-payload-identity-preserved");
                } else if matches!(want, Some(k) if k != ErrorKind::WriteZero || matches!(fault, Some((_, WriteFaultKind::Error(_), _)))) && s.errors_raised > 0 && s.zero_returned == 0 {
                    return Err(Violation::new("C09/write-error-replaced", "payload-lost", format!("the sink failed with {:?}; encode returned an error of that kind that is not the sink's error (payload gone from the error and its source chain)", want)));
                }
                Ok(())
            }
            (Err(e), false) => Err(Violation::new("C09/spurious-write-error", "spurious", format!("the sink raised no error and never returned Ok(0), yet encode returned Err({e})"))),
        }
    });
    r?
}

fn exec_osfs(plan: &Plan, st: &mut Stats) -> Result<(), Violation> {
    let dir = crate::transport::tmp_dir();
    let _ = std::fs::create_dir_all(&dir);
    let mut map: Beatmap = rosu_map::from_bytes(&plan.data).map_err(|e| Violation::new("C09/setup-decode-failed", "setup", e.to_string()))?;
    st.inc("osfs.probes");
    match plan.get("probe") {
        0 => {
            if !std::path::Path::new("/dev/full").exists() {
                st.inc("osfs.dev-full-absent");
                return Ok(());
            }
            // never hand the device node itself to code under test (a faulty encode_to_path that "cleans up" would unlink
            // it when the check runs as root): go through a symlink in the scratch directory
            let link = dir.join(format!("full-{:?}", std::thread::current().id()));
            let _ = std::fs::remove_file(&link);
            if std::os::unix::fs::symlink("/dev/full", &link).is_err() {
                st.inc("osfs.dev-full-absent");
                return Ok(());
            }
            let r = map.encode_to_path(&link);
            let _ = std::fs::remove_file(&link);
            match r {
                Err(_) => {
                    st.inc("osfs.dev-full-returned-err");
                    Ok(())
                }
                Ok(()) => Err(Violation::new("C09/write-error-swallowed", "dev-full", "encode_to_path(\"/dev/full\") returned Ok although every write fails with ENOSPC")),
            }
        }
        1 => match map.encode_to_path(dir.join("no-such-dir").join("x.osu")) {
            Err(_) => Ok(()),
            Ok(()) => Err(Violation::new("C09/write-error-swallowed", "missing-dir", "encode_to_path into a missing directory returned Ok")),
        },
        2 => match rosu_map::from_path::<Beatmap>(&dir) {
            Err(_) => Ok(()),
            Ok(_) => Err(Violation::new("C09/read-error-swallowed", "dir-as-file", "from_path(<directory>) returned Ok")),
        },
        3 => match rosu_map::from_path::<Beatmap>(dir.join("missing.osu")) {
            Err(_) => Ok(()),
            Ok(_) => Err(Violation::new("C09/read-error-swallowed", "missing-file", "from_path(<missing>) returned Ok")),
        },
        5 | 6 => {
            // a special file that opens fine, reports length 0 and whose every read fails (/proc/self/mem: EIO at offset
            // 0) — reached through a scratch symlink, read-only. Ok(default map) would be a swallowed read error.
            let target = "/proc/self/mem";
            let link = dir.join(format!("mem-{:?}-{}", std::thread::current().id(), plan.get("probe")));
            let _ = std::fs::remove_file(&link);
            let readable_fails = std::fs::File::open(target).map(|mut f| {
                use std::io::Read as _;
                let mut b = [0u8; 8];
                f.read(&mut b).is_err()
            });
            if !matches!(readable_fails, Ok(true)) || std::os::unix::fs::symlink(target, &link).is_err() {
                st.inc("osfs.failing-special-file-absent");
                return Ok(());
            }
            let r = if plan.get("probe") == 5 { rosu_map::from_path::<Beatmap>(&link).map(|_| ()) } else { Beatmap::from_path(&link).map(|_| ()) };
            let _ = std::fs::remove_file(&link);
            st.inc("osfs.failing-special-file-probed");
            match r {
                Err(_) => Ok(()),
                Ok(()) => Err(Violation::new("C09/read-error-swallowed", "failing-special-file", "from_path on a file whose every read fails (length 0 reported) returned Ok")),
            }
        }
        _ => {
            let path = dir.join(format!("ok-{:?}.osu", std::thread::current().id()));
            let r = map.encode_to_path(&path);
            let got = std::fs::read(&path);
            let _ = std::fs::remove_file(&path);
            let mut clean = Vec::new();
            let mut m2: Beatmap = rosu_map::from_bytes(&plan.data).unwrap_or_default();
            let _ = m2.encode(&mut clean);
            match (r, got) {
                (Ok(()), Ok(g)) if g == clean => Ok(()),
                (Ok(()), Ok(g)) => Err(Violation::new("C09/transient-changed-output", "real-file", format!("encode_to_path wrote {} bytes, clean encoding has {}", g.len(), clean.len()))),
                (r, g) => {
                    // the real file system refused: not a verdict about rosu-map
                    st.inc("osfs.tempfile-unavailable");
                    let _ = (r, g);
                    Ok(())
                }
            }
        }
    }
}
