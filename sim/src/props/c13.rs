//! C13 — control-point collections stay ordered and lookups return the active point.
//! One shared real `ControlPoints`; 1–3 logical clients (decoder flush in time order, encoder sample collection in
//! time order, a user adding at arbitrary times) whose operations the scheduler interleaves. After every `add`
//! the real lists must equal the reference sorted-list model, stay strictly increasing, and every lookup at probe
//! times between, at and beyond the stored times must equal a linear-scan reference.

use crate::engine::{Scenario, Stats, Tier, Violation};
use crate::json::J;
use crate::models::timing::{MC, MD, ME, MS, MT};
use crate::plan::{Op, Plan};
use crate::rng::{Fnv, Rng};
use rosu_map::section::hit_objects::hit_samples::SampleBank;
use rosu_map::section::timing_points::{ControlPoint, ControlPoints, DifficultyPoint, EffectPoint, SamplePoint, TimeSignature, TimingPoint};

pub struct C13;

static PAIRS: crate::engine::PairTable = crate::engine::PairTable::new(&["add_t", "add_d", "add_e", "add_s"]);

const ALPHA_TIMES: [f64; 4] = [-1.0, 0.0, 1.0, 2.0];

fn enum_count(maxlen: u32) -> u64 {
    // alphabet: 4 kinds x 4 times x 2 values = 32 ops
    (0..=maxlen).map(|l| 32u64.pow(l)).sum()
}
fn maxlen(tier: Tier) -> u32 {
    match tier {
        Tier::Quick => 3,
        Tier::Thorough => 4,
    }
}

fn alpha_op(k: u64) -> Op {
    let kind = k % 4;
    let t = ALPHA_TIMES[(k / 4 % 4) as usize];
    let v = k / 16 % 2;
    match kind {
        0 => Op::new("add_t", &[t, if v == 0 { 500.0 } else { 300.0 }]),
        1 => Op::new("add_d", &[t, if v == 0 { 1.0 } else { 2.0 }, 1.0]),
        2 => Op::new("add_e", &[t, v as f64, 1.0]),
        _ => Op::new("add_s", &[t, 1.0, if v == 0 { 100.0 } else { 50.0 }, 0.0]),
    }
}

fn bank(i: i64) -> SampleBank {
    match i.rem_euclid(4) {
        0 => SampleBank::None,
        1 => SampleBank::Normal,
        2 => SampleBank::Soft,
        _ => SampleBank::Drum,
    }
}

impl Scenario for C13 {
    fn id(&self) -> &'static str {
        "C13"
    }
    fn level(&self) -> &'static str {
        "exploration"
    }
    fn rule(&self) -> String {
        "Operation histories over one shared ControlPoints: (1) every sequence up to length 3 (quick) / 4 (thorough) over the alphabet {4 kinds x times {-1,0,1,2} x 2 values} — enumerated; (2) seeded histories of length <= 32 (one in ten: 40..140 operations over a pool of 70 times, so lists outgrow any small internal threshold and equal-time adds land on every index) built from 1–3 client scripts (two time-ordered, one arbitrary) interleaved by the scheduler, with fractional, negative and repeated times (finite, no -0.0, no NaN). After every add: lists == reference model, strictly increasing; lookups at every stored time, midpoints, before the first and beyond the last == linear-scan reference with the documented fall-backs. Also: bulk histories of 60..700 adds with unique values (ascending / descending / shuffled / front inserts / re-adds). Round 8: values one ulp beside pool values; direct ControlPoint trait calls (chk_* query, raw_* add). Round 10: bulk histories of ~4100..4300 points; pairs of values beyond the same clamp. Round 11: histories that start on a decoder-produced collection; lookup-burst-lookup (2^8 / 2^16+-1 / 2^17 adds between identical lookups); lists filled beyond 2^16 points. Round 13: subnormal times. distinct_nontrivial = distinct plan hashes with >= 2 operations.".into()
    }
    fn assumptions(&self) -> Vec<String> {
        vec![
            "reference sorted-list model (sim/src/models/timing.rs) is the trusted base; 'active at its time' is read narrowly (latest point not after it; difficulty/effect compare with the default when there is none; a sample point with no earlier point is never redundant)".into(),
            "&mut makes every operation atomic, so the schedule is exactly the operation order (weak fit: no I/O fault applies)".into(),
            "-0.0 times are excluded (total_cmp orders -0.0 before 0.0; outside the stated alphabet). NaN-time adds are injected rarely as a hostile operation with a deliberately narrow oracle: the finite-time points and all lookups at finite times must be exactly what they would be without that add".into(),
        ]
    }
    fn components(&self) -> J {
        J::obj().with("real", J::Arr(vec![J::str("ControlPoints::{add, timing_point_at, difficulty_point_at, effect_point_at, sample_point_at} and the ControlPoint impls")])).with("stub", J::Arr(vec![J::str("none")]))
    }
    fn total_runs(&self, tier: Tier) -> u64 {
        enum_count(maxlen(tier))
            + match tier {
                Tier::Quick => 200_000,
                Tier::Thorough => 12_000_000,
            }
    }
    fn plan(&self, seed: u64, idx: u64, tier: Tier) -> Plan {
        let ne = enum_count(maxlen(tier));
        if idx < ne {
            let mut p = Plan::new("C13", "enumerated", seed, idx);
            let mut k = idx;
            let mut len = 0u32;
            loop {
                let c = 32u64.pow(len);
                if k < c {
                    break;
                }
                k -= c;
                len += 1;
            }
            for _ in 0..len {
                p.ops.push(alpha_op(k % 32));
                k /= 32;
            }
            return p;
        }
        let mut rng = Rng::for_run(seed, "C13", idx);
        let mut p = Plan::new("C13", "interleaved-clients", seed, idx);
        let nclients = 1 + rng.below(3);
        p.set("clients", nclients as i64);
        let gen_time = |rng: &mut Rng| -> f64 {
            match rng.below(6) {
                0 | 1 => *rng.pick(&ALPHA_TIMES),
                2 => ((rng.unit() - 0.3) * 10.0 * 8.0).round() / 8.0,
                3 => (rng.unit() - 0.3) * 10.0,
                4 => *rng.pick(&[0.5, 1.5, -0.5, 1e9, -1e9, 1e-9, 100.0, 1.0000000000000002, 0.5000000000000001, 0.25, 0.25000000000000006, 0.49999999999999994, 1e-17, 2e-16, 3e9, -3e9, 2147483647.0, 2147483648.0, f64::INFINITY, f64::NEG_INFINITY, f64::MAX, f64::MIN_POSITIVE, 1e-310, 2e-310, -1e-310, 5e-324, -5e-324, 2.2250738585072009e-308]),
                _ => rng.range(-3, 6) as f64,
            }
        };
        let kind_bias = rng.below(4);
        let gen_op = |rng: &mut Rng, t: f64| -> Op {
            // rarely: a NaN time (positive NaN) — it equals no stored time, so it must not disturb any finite point
            let t = if rng.chance(1, 60) { f64::NAN } else { t };
            let k = if rng.chance(1, 2) { kind_bias } else { rng.below(4) };
            match k {
                0 => Op::new("add_t", &[t, *rng.pick(&[500.0, 300.0, 5.0, 1e6, 500.0, f64::NAN, f64::INFINITY, 0.0, -1.0]), rng.below(2) as f64, *rng.pick(&[4.0, 4.0, 3.0, 7.0])]),
                1 => Op::new("add_d", &[t, *rng.pick(&[1.0, 2.0, 0.5, 1.0, 0.0, 0.25, 0.25000000000000017, f64::NAN, f64::INFINITY, 2.0, 1.0, 0.9999999999999999, 1.0000000000000002, 0.9999999999999998, 12.0, 16.0, 0.05, 0.02, 40.0, 1e-3]), if rng.chance(1, 4) { 0.0 } else { 1.0 }]),
                2 => Op::new("add_e", &[t, rng.below(2) as f64, *rng.pick(&[1.0, 1.0, 2.0, 0.0, 0.25, 0.25000000000000017, f64::NAN, f64::INFINITY, 2.0, 1.0, 0.9999999999999999, 1.0000000000000002, 0.9999999999999998, 12.0, 16.0, 0.005, 0.0025, 100.0, 1e-3])]),
                _ => Op::new("add_s", &[t, rng.below(4) as f64, *rng.pick(&[100.0, 50.0, 100.0, 120.0, -5.0, 44.0, 300.0, 356.0]), *rng.pick(&[0.0, 1.0, 0.0, 1.0, -1.0, 2.0, -2.0, 65538.0, 65536.0, 65535.0])]),
            }
        };
        if rng.chance(1, 400) {
            // a list beyond 2^16 points (filled in ascending order without per-step checks), then ordinary operations
            p.scen = "fill-then-ops".into();
            let kind = rng.below(4) as f64;
            p.ops.push(Op::new("fill", &[kind, (65_530 + rng.below(200)) as f64, -500.0, 0.25]));
            for _ in 0..3 + rng.below(6) {
                let t = match rng.below(3) {
                    0 => -500.0 + 0.25 * rng.below(66_000) as f64 + 0.125, // a new time in the middle
                    1 => 20_000.0 + rng.below(100) as f64,                  // a new time at the end
                    _ => -500.0 + 0.25 * rng.below(65_000) as f64,          // a stored time
                };
                let u = 700.0 + p.ops.len() as f64;
                p.ops.push(match kind as i64 {
                    0 => Op::new("add_t", &[t, u, 0.0, 4.0]),
                    1 => Op::new("add_d", &[t, 3.0 + u / 1024.0, 1.0]),
                    2 => Op::new("add_e", &[t, 0.0, 3.0 + u / 1024.0]),
                    _ => Op::new("add_s", &[t, 2.0, u, 0.0]),
                });
            }
            return p;
        }
        if rng.chance(1, 120) {
            // the same lookup before and after a burst of adds of one kind (2^8, 2^16 +-1, 2^17 of them; the first one
            // inserts in front of everything, the rest replace it): nothing remembered across the burst may survive it
            p.scen = "lookup-burst-lookup".into();
            for _ in 0..2 + rng.below(5) {
                let t = gen_time(&mut rng);
                p.ops.push(gen_op(&mut rng, t));
            }
            let kind = rng.below(4) as f64;
            p.ops.push(Op::new("burst", &[kind, *rng.pick(&[256.0, 65536.0, 65536.0, 65535.0, 65537.0, 131072.0, 512.0]), -1e6 - rng.below(50) as f64]));
            for _ in 0..rng.below(4) {
                let t = gen_time(&mut rng);
                p.ops.push(gen_op(&mut rng, t));
            }
            return p;
        }
        if rng.chance(1, 8) {
            // the collection starts life in the decoder: a few timing-point lines in one of the four modes are decoded, the
            // legacy line model says what the lists are, and the history of adds continues on that collection
            let n = 1 + rng.below(5);
            let mode = rng.below(4);
            p.set("decoded_mode", mode as i64);
            for k in 0..n {
                let t = (k as f64) * 100.0 - 50.0;
                let bl = *rng.pick(&["500", "-100", "-50", "-200", "300", "-80"]);
                let inh = if bl.starts_with('-') { 0 } else { 1 };
                p.lines.push(format!("{t},{bl},4,{},0,{},{inh},{}", 1 + rng.below(3), *rng.pick(&[100, 60, 30]), rng.below(2)));
            }
            p.faults.push("collection-from-the-decoder".into());
        }
        // rarely: a bulk history — one or two kinds, 60..700 adds with unique values (so which add survives at a time is
        // attributable), arriving ascending, descending, shuffled, or ascending followed by inserts near the front, with
        // re-adds at stored times mixed in. Lists cross every growth step of their backing store and every size class
        // of a sort or search routine.
        if rng.chance(1, 150) {
            p.scen = "bulk-history".into();
            // (rarely several thousand points: block sizes and thresholds of "large list" code paths)
            let n = if rng.chance(1, 25) { 4090 + rng.below(200) } else if rng.chance(1, 4) { 380 + rng.below(320) } else { 60 + rng.below(140) };
            let kinds: Vec<usize> = if rng.chance(2, 3) { vec![rng.below(4)] } else { vec![rng.below(4), rng.below(4)] };
            let mut times: Vec<f64> = (0..n).map(|i| i as f64 * 0.5 - 8.0).collect();
            match rng.below(4) {
                0 => {}
                1 => times.reverse(),
                2 => rng.shuffle(&mut times),
                _ => {
                    // ascending, but every fourth time is held back and inserted afterwards (front half first)
                    let (mut a, mut b) = (vec![], vec![]);
                    for (i, t) in times.iter().enumerate() {
                        if i % 4 == 1 { b.push(*t) } else { a.push(*t) }
                    }
                    a.extend(b);
                    times = a;
                }
            }
            let readd = rng.below(4);
            for (i, t) in times.iter().enumerate() {
                let mut ts = vec![*t];
                if readd > 0 && i > 0 && rng.chance(readd, 8) {
                    ts.push(times[rng.below(i)]); // a stored time again, with a new value
                }
                for t in ts {
                    let u = p.ops.len() as f64;
                    let k = *rng.pick(&kinds);
                    p.ops.push(match k {
                        0 => Op::new("add_t", &[t, 100.0 + u, 0.0, 4.0]),
                        1 => Op::new("add_d", &[t, 0.5 + u / 1024.0, 1.0]),
                        2 => Op::new("add_e", &[t, 0.0, 0.5 + u / 1024.0]),
                        _ => Op::new("add_s", &[t, 1.0, u, 0.0]),
                    });
                }
            }
            return p;
        }
        // one plan in ten is a long history (lists grow beyond any small internal threshold; equal-time adds land on
        // every index), times drawn from a pool so that replacements happen everywhere
        let long = rng.chance(1, 10);
        let pool: Vec<f64> = (0..70).map(|i| i as f64 * 1.5 - 20.0).collect();
        let cap = if long { 40 + rng.below(100) } else { 32 };
        if long {
            p.scen = "long-history".into();
        }
        let mut scripts: Vec<Vec<Op>> = Vec::new();
        for c in 0..nclients {
            let n = if long { 30 + rng.below(60) } else { rng.below(14) };
            let mut times: Vec<f64> = (0..n).map(|_| if long && rng.chance(9, 10) { *rng.pick(&pool) } else { gen_time(&mut rng) }).collect();
            if c < 2 {
                times.sort_by(f64::total_cmp); // decoder flush / encoder collection add in time order
            }
            scripts.push(times.into_iter().map(|t| gen_op(&mut rng, t)).collect());
        }
        // the scheduler picks which client's next operation reaches the shared collection
        let mut pos = vec![0usize; nclients];
        loop {
            let ready: Vec<usize> = (0..nclients).filter(|&c| pos[c] < scripts[c].len()).collect();
            if ready.is_empty() || p.ops.len() >= cap {
                break;
            }
            let c = *rng.pick(&ready);
            p.ops.push(scripts[c][pos[c]].clone());
            pos[c] += 1;
        }
        // one value in eight sits one ulp beside its pool value (equality written with == instead of a tolerance, or
        // a tolerance written with <= instead of <, shows only there)
        for op in p.ops.iter_mut() {
            let vi = match op.k.as_str() {
                "add_d" => 1,
                "add_e" => 2,
                _ => continue,
            };
            if rng.chance(1, 8) && op.a[vi].is_finite() && op.a[vi] != 0.0 {
                let b = op.a[vi].to_bits();
                op.a[vi] = f64::from_bits(if rng.chance(1, 2) { b + 1 } else { b - 1 });
            }
        }
        // the public ControlPoint trait used directly: the redundancy query on its own, and the insert-or-replace without
        // the query (what ControlPoints::add composes)
        if rng.chance(1, 6) {
            p.faults.push("direct-trait-calls".into());
            for op in p.ops.iter_mut() {
                match rng.below(8) {
                    0 | 1 => op.k = op.k.replace("add_", "chk_"),
                    2 => op.k = op.k.replace("add_", "raw_"),
                    _ => {}
                }
            }
        }
        p
    }
    fn execute(&self, plan: &Plan, st: &mut Stats) -> Result<(), Violation> {
        let mut cp = ControlPoints::default();
        let mut m = MC::default();
        if !plan.lines.is_empty() {
            let mode = plan.get("decoded_mode").rem_euclid(4);
            let text = format!("osu file format v14\n\n[General]\nMode: {mode}\n\n[TimingPoints]\n{}\n", plan.lines.join("\n"));
            if let Ok(tp) = rosu_map::from_str::<rosu_map::section::timing_points::TimingPoints>(&text) {
                cp = tp.control_points;
                m = crate::models::timing::model(&plan.lines, mode, 0, 100).0;
                st.inc("probe.collection-started-in-the-decoder");
                if let Some(op) = plan.ops.first() {
                    check_lists(&cp, &m, 0, op)?;
                }
            }
        }
        let huge = plan.ops.iter().any(|o| o.k == "fill");
        let mut prev: Option<usize> = None;
        let mut last_probe = 0.0f64;
        for (i, op) in plan.ops.iter().enumerate() {
            if let Some(k) = PAIRS.idx(&op.k) {
                if let Some(p) = prev {
                    st.inc(PAIRS.name(p, k));
                }
                prev = Some(k);
            }
            if op.k == "fill" {
                // n points of one kind in ascending time order with unique values, no per-step checks
                let (kind, n, t0, dt) = (op.iarg(0), op.iarg(1).clamp(0, 70_000), op.arg(2), op.arg(3));
                st.inc("probe.list-filled-beyond-2^16");
                for j in 0..n {
                    let (t, u) = (t0 + dt * j as f64, j as f64);
                    match kind {
                        0 => {
                            cp.add(TimingPoint { time: t, beat_len: 100.0 + u, omit_first_bar_line: false, time_signature: TimeSignature::new_simple_quadruple() });
                            m.add_t(MT { time: t, beat_len: 100.0 + u, omit: false, sig: 4 });
                        }
                        1 => {
                            cp.add(DifficultyPoint { time: t, slider_velocity: 0.5 + u / 65536.0, generate_ticks: true });
                            m.add_d(MD { time: t, sv: 0.5 + u / 65536.0, ticks: true });
                        }
                        2 => {
                            cp.add(EffectPoint { time: t, kiai: false, scroll_speed: 0.5 + u / 65536.0 });
                            m.add_e(ME { time: t, kiai: false, scroll: 0.5 + u / 65536.0 });
                        }
                        _ => {
                            cp.add(SamplePoint { time: t, sample_bank: bank(1), sample_volume: j as i32, custom_sample_bank: 0 });
                            m.add_s(MS { time: t, bank: 1, vol: j as i32, custom: 0 });
                        }
                    }
                }
                check_lists(&cp, &m, i, op)?;
                continue;
            }
            if op.k == "burst" {
                let (kind, n, t) = (op.iarg(0), op.iarg(1).clamp(1, 200_000), op.arg(2));
                st.inc("probe.lookup-burst-lookup");
                // the lookups right before the burst ...
                let probes = [last_probe, t + 1.0, 0.0, 1.0, f64::MAX];
                let nan_inside = cp.timing_points.iter().any(|p| p.time.is_nan()) || cp.difficulty_points.iter().any(|p| p.time.is_nan()) || cp.effect_points.iter().any(|p| p.time.is_nan()) || cp.sample_points.iter().any(|p| p.time.is_nan());
                if nan_inside {
                    continue; // (a NaN-time point is in the collection: the narrow oracle of that hostile add applies, not this one)
                }
                check_lookup_at(&cp, &m, i, &probes)?;
                for j in 0..n {
                    let u = j as f64;
                    match kind {
                        0 => {
                            cp.add(TimingPoint { time: t, beat_len: 200.0 + u, omit_first_bar_line: false, time_signature: TimeSignature::new_simple_quadruple() });
                            m.add_t(MT { time: t, beat_len: 200.0 + u, omit: false, sig: 4 });
                        }
                        1 => {
                            cp.add(DifficultyPoint { time: t, slider_velocity: 0.5 + u / 262144.0, generate_ticks: true });
                            m.add_d(MD { time: t, sv: 0.5 + u / 262144.0, ticks: true });
                        }
                        2 => {
                            cp.add(EffectPoint { time: t, kiai: false, scroll_speed: 0.5 + u / 262144.0 });
                            m.add_e(ME { time: t, kiai: false, scroll: 0.5 + u / 262144.0 });
                        }
                        _ => {
                            cp.add(SamplePoint { time: t, sample_bank: bank(2), sample_volume: j as i32, custom_sample_bank: 0 });
                            m.add_s(MS { time: t, bank: 2, vol: j as i32, custom: 0 });
                        }
                    }
                }
                // ... and the very same ones right after it
                check_lists(&finite(&cp), &m, i, op)?;
                check_lookup_at(&cp, &m, i, &probes)?;
                continue;
            }
            let t = op.arg(0);
            if t == 0.0 && t.is_sign_negative() {
                continue; // outside the alphabet (minimiser may produce it)
            }
            if op.k.starts_with("chk_") || op.k.starts_with("raw_") {
                if t.is_nan() {
                    continue;
                }
                let raw = op.k.starts_with("raw_");
                st.inc(if raw { "ops.direct-trait-add" } else { "ops.direct-redundancy-query" });
                let verdict = |name: &str, got: bool, want: bool| -> Result<(), Violation> {
                    if got != want {
                        return Err(Violation::new("C13/redundancy-query-mismatch", name, format!("op #{i} {}{:?}: check_already_existing returned {got}, the reference says {want}\n collection: {cp:?}", op.k, op.a)));
                    }
                    Ok(())
                };
                match &op.k[4..] {
                    "t" => {
                        let (bl, omit) = (op.arg(1), op.arg(2) != 0.0);
                        let sig = if op.a.len() > 3 { op.iarg(3).clamp(1, 64) as i32 } else { 4 };
                        let pt = TimingPoint { time: t, beat_len: bl, omit_first_bar_line: omit, time_signature: TimeSignature::new(sig).unwrap_or_else(|_| TimeSignature::new_simple_quadruple()) };
                        if raw {
                            ControlPoint::add(pt, &mut cp);
                            m.add_t(MT { time: t, beat_len: bl, omit, sig: sig as u32 });
                        } else {
                            verdict("timing", pt.check_already_existing(&cp), false)?;
                        }
                    }
                    "d" => {
                        let (sv, ticks) = (op.arg(1), op.arg(2) != 0.0);
                        let pt = DifficultyPoint { time: t, slider_velocity: sv, generate_ticks: ticks };
                        if raw {
                            ControlPoint::add(pt, &mut cp);
                            m.raw_d(MD { time: t, sv, ticks });
                        } else if sv.is_finite() && m.d.iter().all(|q| q.sv.is_finite()) {
                            verdict("difficulty", pt.check_already_existing(&cp), m.red_d(&MD { time: t, sv, ticks }))?;
                        }
                    }
                    "e" => {
                        let (kiai, scroll) = (op.arg(1) != 0.0, op.arg(2));
                        let pt = EffectPoint { time: t, kiai, scroll_speed: scroll };
                        if raw {
                            ControlPoint::add(pt, &mut cp);
                            m.raw_e(ME { time: t, kiai, scroll });
                        } else if scroll.is_finite() && m.e.iter().all(|q| q.scroll.is_finite()) {
                            verdict("effect", pt.check_already_existing(&cp), m.red_e(&ME { time: t, kiai, scroll }))?;
                        }
                    }
                    _ => {
                        let (b, vol, custom) = (op.iarg(1), op.iarg(2) as i32, op.iarg(3) as i32);
                        let pt = SamplePoint { time: t, sample_bank: bank(b), sample_volume: vol, custom_sample_bank: custom };
                        if raw {
                            ControlPoint::add(pt, &mut cp);
                            m.raw_s(MS { time: t, bank: b.rem_euclid(4) as u8, vol, custom });
                        } else {
                            verdict("sample", pt.check_already_existing(&cp), m.red_s(&MS { time: t, bank: b.rem_euclid(4) as u8, vol, custom }))?;
                        }
                    }
                }
                let has_nan = cp.timing_points.iter().any(|p| p.time.is_nan()) || cp.difficulty_points.iter().any(|p| p.time.is_nan()) || cp.effect_points.iter().any(|p| p.time.is_nan()) || cp.sample_points.iter().any(|p| p.time.is_nan());
                check_lists(&finite(&cp), &m, i, op)?;
                if !has_nan {
                    check_lookup_at(&cp, &m, i, &[t, t - 0.25, t + 0.25, f64::MIN, f64::MAX])?;
                }
                continue;
            }
            if t.is_nan() {
                // hostile operation: a point whose time equals no time. It is applied to the real collection only; the
                // oracle afterwards looks at the finite-time points, which it must not have disturbed.
                let t = f64::NAN; // positive NaN
                st.inc("probe.add-with-NaN-time");
                match op.k.as_str() {
                    "add_t" => cp.add(TimingPoint { time: t, beat_len: op.arg(1), omit_first_bar_line: false, time_signature: TimeSignature::new_simple_quadruple() }),
                    "add_d" => cp.add(DifficultyPoint { time: t, slider_velocity: op.arg(1), generate_ticks: op.arg(2) != 0.0 }),
                    "add_e" => cp.add(EffectPoint { time: t, kiai: op.arg(1) != 0.0, scroll_speed: op.arg(2) }),
                    "add_s" => cp.add(SamplePoint { time: t, sample_bank: bank(op.iarg(1)), sample_volume: op.iarg(2) as i32, custom_sample_bank: op.iarg(3) as i32 }),
                    _ => {}
                }
                // narrow oracle for the hostile op: the finite-time points are untouched (lists and lookups are judged on
                // the collection with the NaN-time points filtered out; where a NaN-time point itself may sit, or be
                // returned by a fall-back lookup, is not fixed by the property)
                check_lists(&finite(&cp), &m, i, op)?;
                check_lookups(&finite(&cp), &m, i, st)?;
                continue;
            }
            st.inc("steps.ops_applied");
            let before = m.clone();
            match op.k.as_str() {
                "add_t" => {
                    let bl = op.arg(1);
                    let omit = op.arg(2) != 0.0;
                    let sig = if op.a.len() > 3 { op.iarg(3).clamp(1, 64) as i32 } else { 4 };
                    cp.add(TimingPoint { time: t, beat_len: bl, omit_first_bar_line: omit, time_signature: TimeSignature::new(sig).unwrap_or_else(|_| TimeSignature::new_simple_quadruple()) });
                    m.add_t(MT { time: t, beat_len: bl, omit, sig: sig as u32 });
                }
                "add_d" => {
                    let (sv, ticks) = (op.arg(1), op.arg(2) != 0.0);
                    cp.add(DifficultyPoint { time: t, slider_velocity: sv, generate_ticks: ticks });
                    // a NaN (or same-signed infinite) value repeating a NaN (infinite) active value: whether that "merely
                    // repeats" is not fixed by the statement — accept either outcome and follow the real collection
                    let act = crate::models::timing::active(&m.d, t, |q| q.time).map(|i| (m.d[i].sv, m.d[i].ticks));
                    let ambiguous = matches!(act, Some((a, tk)) if tk == ticks && ((a.is_nan() && sv.is_nan()) || (a.is_infinite() && a == sv)));
                    if ambiguous {
                        st.inc("probe.ambiguous-repeat-of-non-finite-value");
                        let stored = cp.difficulty_points.iter().any(|p| p.time.to_bits() == t.to_bits() && p.slider_velocity.to_bits() == sv.to_bits());
                        if stored {
                            let mut mm = std::mem::take(&mut m.d);
                            mm.retain(|q| q.time.to_bits() != t.to_bits());
                            let at = mm.iter().position(|q| q.time.total_cmp(&t).is_gt()).unwrap_or(mm.len());
                            mm.insert(at, MD { time: t, sv, ticks });
                            m.d = mm;
                        }
                    } else {
                        m.add_d(MD { time: t, sv, ticks });
                    }
                }
                "add_e" => {
                    let (kiai, scroll) = (op.arg(1) != 0.0, op.arg(2));
                    cp.add(EffectPoint { time: t, kiai, scroll_speed: scroll });
                    let act = crate::models::timing::active(&m.e, t, |q| q.time).map(|i| (m.e[i].scroll, m.e[i].kiai));
                    let ambiguous = matches!(act, Some((a, k)) if k == kiai && ((a.is_nan() && scroll.is_nan()) || (a.is_infinite() && a == scroll)));
                    if ambiguous {
                        st.inc("probe.ambiguous-repeat-of-non-finite-value");
                        let stored = cp.effect_points.iter().any(|p| p.time.to_bits() == t.to_bits() && p.scroll_speed.to_bits() == scroll.to_bits());
                        if stored {
                            let mut mm = std::mem::take(&mut m.e);
                            mm.retain(|q| q.time.to_bits() != t.to_bits());
                            let at = mm.iter().position(|q| q.time.total_cmp(&t).is_gt()).unwrap_or(mm.len());
                            mm.insert(at, ME { time: t, kiai, scroll });
                            m.e = mm;
                        }
                    } else {
                        m.add_e(ME { time: t, kiai, scroll });
                    }
                }
                "add_s" => {
                    let (b, vol, custom) = (op.iarg(1), op.iarg(2) as i32, op.iarg(3) as i32);
                    cp.add(SamplePoint { time: t, sample_bank: bank(b), sample_volume: vol, custom_sample_bank: custom });
                    m.add_s(MS { time: t, bank: b.rem_euclid(4) as u8, vol, custom });
                }
                _ => continue,
            }
            if before == m {
                st.inc("probe.redundant-add-dropped");
            } else if before.t.len() + before.d.len() + before.e.len() + before.s.len() == m.t.len() + m.d.len() + m.e.len() + m.s.len() {
                st.inc("probe.add-replaced-point-at-same-time");
            } else {
                st.inc("probe.add-inserted");
            }
            check_lists(&finite(&cp), &m, i, op)?;
            // first the probe time that was looked up LAST before this add, once more and before anything else (a lookup
            // memo keyed by the probe time would still hold the pre-add answer), then the full sweep — on the real
            // collection when it holds no NaN-time point
            let has_nan = cp.timing_points.iter().any(|p| p.time.is_nan()) || cp.difficulty_points.iter().any(|p| p.time.is_nan()) || cp.effect_points.iter().any(|p| p.time.is_nan()) || cp.sample_points.iter().any(|p| p.time.is_nan());
            // bulk histories: the full quadratic sweep only now and then, the neighbourhood of the add every time
            let every = if plan.ops.len() > 1500 { 1531 } else { 41 };
            let sparse = huge || (plan.ops.len() > 160 && i % every != 0 && i + 1 != plan.ops.len());
            if has_nan {
                check_lookups(&finite(&cp), &m, i, st)?;
            } else {
                let repeat = [last_probe, t, t - 0.25, t + 0.25, f64::MIN, f64::MAX];
                check_lookup_at(&cp, &m, i, &repeat)?;
                if !sparse {
                    check_lookups(&cp, &m, i, st)?;
                }
                last_probe = if i % 2 == 0 { t } else { f64::MAX };
                // leave the collection with that probe as the most recent lookup of every kind
                let _ = (cp.sample_point_at(last_probe), cp.timing_point_at(last_probe), cp.difficulty_point_at(last_probe), cp.effect_point_at(last_probe));
            }
        }
        let mut h = Fnv::new();
        use std::fmt::Write as _;
        let _ = write!(h, "{cp:?}");
        st.outcome = h.finish();
        Ok(())
    }
    fn nontrivial(&self, plan: &Plan) -> bool {
        plan.ops.len() >= 2
    }
    fn reach_probes(&self) -> Vec<&'static str> {
        vec!["probe.redundant-add-dropped", "probe.add-replaced-point-at-same-time", "probe.add-inserted", "probe.lookup-before-first-point", "probe.lookup-between-points", "probe.lookup-beyond-last-point", "probe.lookup-exactly-at-point", "probe.add-with-NaN-time"]
    }
}

/// The collection without points whose time is NaN (only present after a hostile NaN-time add).
fn finite(cp: &ControlPoints) -> ControlPoints {
    let mut c = cp.clone();
    c.timing_points.retain(|p| !p.time.is_nan());
    c.difficulty_points.retain(|p| !p.time.is_nan());
    c.effect_points.retain(|p| !p.time.is_nan());
    c.sample_points.retain(|p| !p.time.is_nan());
    c
}

fn check_lists(cp: &ControlPoints, m: &MC, i: usize, op: &Op) -> Result<(), Violation> {
    let strictly = |name: &str, v: Vec<f64>| -> Result<(), Violation> {
        for w in v.windows(2) {
            if !(w[0] < w[1]) {
                return Err(Violation::new("C13/not-strictly-increasing", name, format!("after op #{i} {}{:?}: {name} list times {} then {}", op.k, op.a, w[0], w[1])));
            }
        }
        Ok(())
    };
    strictly("timing", cp.timing_points.iter().map(|p| p.time).collect())?;
    strictly("difficulty", cp.difficulty_points.iter().map(|p| p.time).collect())?;
    strictly("effect", cp.effect_points.iter().map(|p| p.time).collect())?;
    strictly("sample", cp.sample_points.iter().map(|p| p.time).collect())?;
    let ok_t = cp.timing_points.len() == m.t.len() && cp.timing_points.iter().zip(&m.t).all(|(a, b)| a.time.to_bits() == b.time.to_bits() && a.beat_len.to_bits() == b.beat_len.to_bits() && a.omit_first_bar_line == b.omit && a.time_signature.numerator.get() == b.sig);
    let ok_d = cp.difficulty_points.len() == m.d.len() && cp.difficulty_points.iter().zip(&m.d).all(|(a, b)| a.time.to_bits() == b.time.to_bits() && a.slider_velocity.to_bits() == b.sv.to_bits() && a.generate_ticks == b.ticks);
    let ok_e = cp.effect_points.len() == m.e.len() && cp.effect_points.iter().zip(&m.e).all(|(a, b)| a.time.to_bits() == b.time.to_bits() && a.kiai == b.kiai && a.scroll_speed.to_bits() == b.scroll.to_bits());
    let ok_s = cp.sample_points.len() == m.s.len() && cp.sample_points.iter().zip(&m.s).all(|(a, b)| a.time.to_bits() == b.time.to_bits() && a.sample_bank as u8 == b.bank && a.sample_volume == b.vol && a.custom_sample_bank == b.custom);
    if !(ok_t && ok_d && ok_e && ok_s) {
        let which = if !ok_t { "timing" } else if !ok_d { "difficulty" } else if !ok_e { "effect" } else { "sample" };
        return Err(Violation::new("C13/list-mismatch", which, format!("after op #{i} {}{:?} the {which} list differs from the reference collection\n real : {cp:?}\n model: {m:?}", op.k, op.a)));
    }
    Ok(())
}

/// Lookups at the given probe times only (same oracle as `check_lookups`).
fn check_lookup_at(cp: &ControlPoints, m: &MC, i: usize, probes: &[f64]) -> Result<(), Violation> {
    let scan = |ts: &[f64], t: f64| -> Option<usize> {
        let mut r = None;
        for (k, x) in ts.iter().enumerate() {
            if *x <= t {
                r = Some(k);
            }
        }
        r
    };
    let tt: Vec<f64> = m.t.iter().map(|p| p.time).collect();
    let td: Vec<f64> = m.d.iter().map(|p| p.time).collect();
    let te: Vec<f64> = m.e.iter().map(|p| p.time).collect();
    let ts: Vec<f64> = m.s.iter().map(|p| p.time).collect();
    for &t in probes {
        if t.is_nan() || (t == 0.0 && t.is_sign_negative()) {
            continue;
        }
        let w = |v: &[f64], k: Option<usize>| k.map(|k| v[k].to_bits());
        let want_t = scan(&tt, t).or(if tt.is_empty() { None } else { Some(0) });
        let want_s = scan(&ts, t).or(if ts.is_empty() { None } else { Some(0) });
        for (name, got, want) in [
            ("timing", cp.timing_point_at(t).map(|p| p.time.to_bits()), w(&tt, want_t)),
            ("sample", cp.sample_point_at(t).map(|p| p.time.to_bits()), w(&ts, want_s)),
            ("difficulty", cp.difficulty_point_at(t).map(|p| p.time.to_bits()), w(&td, scan(&td, t))),
            ("effect", cp.effect_point_at(t).map(|p| p.time.to_bits()), w(&te, scan(&te, t))),
        ] {
            if got != want {
                return Err(Violation::new("C13/lookup-mismatch", name, format!("after op #{i}: {name}_point_at({t}) — the probe time looked up right before the add, asked again right after it — returned the point at {:?}, the linear-scan reference says {:?}\n collection: {cp:?}", got.map(f64::from_bits), want.map(f64::from_bits))));
            }
        }
    }
    Ok(())
}

fn check_lookups(cp: &ControlPoints, m: &MC, i: usize, st: &mut Stats) -> Result<(), Violation> {
    // probe times: every stored time, midpoints between neighbours, before the first, beyond the last
    let mut times: Vec<f64> = m.t.iter().map(|p| p.time).chain(m.d.iter().map(|p| p.time)).chain(m.e.iter().map(|p| p.time)).chain(m.s.iter().map(|p| p.time)).collect();
    times.sort_by(f64::total_cmp);
    times.dedup_by(|a, b| a.to_bits() == b.to_bits());
    let mut probes = times.clone();
    for w in times.windows(2) {
        probes.push(w[0] + (w[1] - w[0]) / 2.0);
    }
    if let (Some(f), Some(l)) = (times.first(), times.last()) {
        probes.push(f - 1.0);
        probes.push(l + 1.0);
        probes.push(f64::MIN);
        probes.push(f64::MAX);
    } else {
        probes.push(0.0);
    }
    let scan = |ts: &[f64], t: f64| -> Option<usize> {
        let mut r = None;
        for (k, x) in ts.iter().enumerate() {
            if *x <= t {
                r = Some(k);
            }
        }
        r
    };
    let tt: Vec<f64> = m.t.iter().map(|p| p.time).collect();
    let td: Vec<f64> = m.d.iter().map(|p| p.time).collect();
    let te: Vec<f64> = m.e.iter().map(|p| p.time).collect();
    let ts: Vec<f64> = m.s.iter().map(|p| p.time).collect();
    for &t in &probes {
        if (t == 0.0 && t.is_sign_negative()) || t.is_nan() {
            continue; // -0.0 and NaN probe times are outside the property (midpoint of -inf and a finite time is NaN)
        }
        st.inc("steps.lookups");
        let all = [&tt, &td, &te, &ts];
        for l in all {
            if let (Some(f), Some(la)) = (l.first(), l.last()) {
                if t < *f {
                    st.inc("probe.lookup-before-first-point");
                } else if t > *la {
                    st.inc("probe.lookup-beyond-last-point");
                } else if l.iter().any(|x| *x == t) {
                    st.inc("probe.lookup-exactly-at-point");
                } else {
                    st.inc("probe.lookup-between-points");
                }
            }
        }
        // timing & sample: latest not after t, else the first point; difficulty & effect: latest not after t, else nothing
        let want_t = scan(&tt, t).or(if tt.is_empty() { None } else { Some(0) });
        let want_s = scan(&ts, t).or(if ts.is_empty() { None } else { Some(0) });
        let want_d = scan(&td, t);
        let want_e = scan(&te, t);
        let got_t = cp.timing_point_at(t).map(|p| p.time.to_bits());
        let got_s = cp.sample_point_at(t).map(|p| p.time.to_bits());
        let got_d = cp.difficulty_point_at(t).map(|p| p.time.to_bits());
        let got_e = cp.effect_point_at(t).map(|p| p.time.to_bits());
        let w = |v: &[f64], k: Option<usize>| k.map(|k| v[k].to_bits());
        for (name, got, want) in [("timing", got_t, w(&tt, want_t)), ("sample", got_s, w(&ts, want_s)), ("difficulty", got_d, w(&td, want_d)), ("effect", got_e, w(&te, want_e))] {
            if got != want {
                return Err(Violation::new(
                    "C13/lookup-mismatch",
                    name,
                    format!("after op #{i}: {name}_point_at({t}) returned the point at {:?}, the linear-scan reference says {:?}\n collection: {cp:?}", got.map(f64::from_bits), want.map(f64::from_bits)),
                ));
            }
        }
    }
    Ok(())
}
