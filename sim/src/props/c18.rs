//! C18 — curve computation is pure: buffers, caches and API choice do not matter.
//! One shared real `CurveBuffers`, a pool of control-point lists and a few real sliders (`HitObject` with a
//! `SliderPath` cache); operations from several logical clients reach them in scheduler-chosen order. After every
//! computing operation the path and cumulative lengths must be bit-identical to `Curve::new` on FRESH buffers for
//! the current (mode, points, length); after a mutation through the accessors the next access must reflect it.

use crate::engine::{Scenario, Stats, Tier, Violation};
use crate::json::J;
use crate::plan::{Op, Plan};
use crate::rng::{Fnv, Rng};
use rosu_map::section::general::GameMode;
use rosu_map::section::hit_objects::{BorrowedCurve, Curve, CurveBuffers, HitObject, HitObjectKind, HitObjectSlider, PathControlPoint, PathType, SliderPath};
use rosu_map::util::Pos;
use std::num::NonZeroI32;

pub struct C18 {
    pub corpus: std::sync::Arc<crate::corpus::Corpus>,
}

static PAIRS: crate::engine::PairTable = crate::engine::PairTable::new(&["owned", "borrowed", "sp_new", "sp_curve", "sp_curve_bufs", "sp_borrowed", "sp_duration", "sp_end_time", "sp_push", "sp_pop", "sp_set", "sp_settype", "sp_len", "sp_clear", "sp_clone", "sp_clone_from", "sp_swap", "sp_reverse", "sp_churn"]);

fn mode_of(i: i64) -> GameMode {
    match i.rem_euclid(4) {
        0 => GameMode::Osu,
        1 => GameMode::Taiko,
        2 => GameMode::Catch,
        _ => GameMode::Mania,
    }
}
fn ptype(code: i64) -> Option<PathType> {
    match code {
        0 => Some(PathType::CATMULL),
        1 => Some(PathType::BEZIER),
        2 => Some(PathType::LINEAR),
        3 => Some(PathType::PERFECT_CURVE),
        c if c >= 10 => NonZeroI32::new((c - 10) as i32 + 1).map(PathType::new_b_spline),
        _ => None,
    }
}
fn len_of(v: f64) -> Option<f64> {
    if v.is_nan() {
        None
    } else {
        Some(v)
    }
}
fn points_of(a: &[f64]) -> Vec<PathControlPoint> {
    a.chunks_exact(3).map(|c| PathControlPoint { pos: Pos::new(c[1] as f32, c[2] as f32), path_type: ptype(if c[0].is_finite() { c[0] as i64 } else { -1 }) }).collect()
}

fn slider_mut(obj: &mut HitObject) -> &mut HitObjectSlider {
    match &mut obj.kind {
        HitObjectKind::Slider(s) => s,
        _ => unreachable!("slot objects are always sliders"),
    }
}

#[derive(PartialEq, Debug, Clone)]
struct Snap {
    path: Vec<(u32, u32)>,
    lengths: Vec<u64>,
}
fn snap(path: &[Pos], lengths: &[f64]) -> Snap {
    Snap { path: path.iter().map(|p| (p.x.to_bits(), p.y.to_bits())).collect(), lengths: lengths.iter().map(|l| l.to_bits()).collect() }
}
fn fresh(mode: GameMode, pts: &[PathControlPoint], len: Option<f64>) -> Snap {
    let c = Curve::new(mode, pts, len, &mut CurveBuffers::default());
    snap(c.path(), c.lengths())
}

// ---- list generators (planning time only)
fn flat(pts: &[(i64, f64, f64)]) -> Vec<f64> {
    pts.iter().flat_map(|p| [p.0 as f64, p.1, p.2]).collect()
}
fn gen_list(rng: &mut Rng) -> Vec<f64> {
    let c = |rng: &mut Rng| -> (f64, f64) {
        if rng.chance(1, 5) {
            ((rng.unit() * 512.0 * 4.0).round() / 4.0, (rng.unit() * 384.0 * 4.0).round() / 4.0)
        } else {
            (rng.range(-50, 560) as f64, rng.range(-50, 430) as f64)
        }
    };
    match rng.below(18) {
        17 => {
            // coordinates far beyond what a file can hold (the API takes any f32): thousands of subdivisions per segment
            let s = *rng.pick(&[1e5f64, 1e6, 4e6]);
            let n = 3 + rng.below(3);
            let mut v = vec![(1, 0.0, 0.0)];
            for _ in 1..n {
                v.push((-1, (rng.unit() * s).round(), (rng.unit() * s).round()));
            }
            flat(&v)
        }
        15 => {
            // degenerate: two or three identical points (with a requested length this is the "no extension" corner)
            let a = if rng.chance(1, 2) { (0.0, 0.0) } else { c(rng) };
            let t = *rng.pick(&[2, 2, 1, 0, 3]);
            if rng.chance(1, 2) {
                flat(&[(t, a.0, a.1), (-1, a.0, a.1)])
            } else {
                flat(&[(t, a.0, a.1), (-1, a.0, a.1), (-1, a.0, a.1)])
            }
        }
        16 => {
            // plain two-point shapes of every type
            let a = c(rng);
            flat(&[(*rng.pick(&[2, 1, 0, 3, -1]), 0.0, 0.0), (-1, a.0, a.1)])
        }
        12 => {
            // a huge Bezier (> 100 control points): grows every scratch buffer far beyond what later segments need
            let n = 101 + rng.below(80);
            let mut v = vec![(1, 0.0, 0.0)];
            for _ in 1..n {
                let p = c(rng);
                v.push((-1, p.0, p.1));
            }
            flat(&v)
        }
        13 => {
            // doubled final control point (the osu-stable "no extension" case)
            let (a, b) = (c(rng), c(rng));
            flat(&[(*rng.pick(&[2, 1, 0]), 0.0, 0.0), (-1, a.0, a.1), (-1, b.0, b.1), (-1, b.0, b.1)])
        }
        14 => {
            // short Catmull / linear pieces between big ones
            let a = c(rng);
            flat(&[(*rng.pick(&[0, 0, 2]), 0.0, 0.0), (-1, a.0, a.1)])
        }
        0 => vec![],
        1 => flat(&[(*rng.pick(&[2, 1, 0, 3]), 0.0, 0.0)]),
        2 => flat(&[(2, 0.0, 0.0), (-1, 100.0, 0.0)]),
        3 => {
            let n = 2 + rng.below(9);
            let mut v = vec![(1, 0.0, 0.0)];
            for _ in 1..n {
                let p = c(rng);
                v.push((-1, p.0, p.1));
            }
            flat(&v)
        }
        4 => {
            let (a, b) = (c(rng), c(rng));
            flat(&[(3, 0.0, 0.0), (-1, a.0, a.1), (-1, b.0, b.1)])
        }
        5 => flat(&[(3, 0.0, 0.0), (-1, 50.0, 50.0), (-1, 100.0, 100.0)]), // collinear perfect curve
        6 => {
            let n = 2 + rng.below(7);
            let mut v = vec![(0, 0.0, 0.0)];
            for _ in 1..n {
                let p = c(rng);
                v.push((-1, p.0, p.1));
            }
            flat(&v)
        }
        7 => {
            // multi-segment with every type letter, including a shared joint
            let (a, b, d, e, f) = (c(rng), c(rng), c(rng), c(rng), c(rng));
            flat(&[(1, 0.0, 0.0), (-1, a.0, a.1), (2, b.0, b.1), (-1, d.0, d.1), (3, d.0, d.1), (-1, e.0, e.1), (-1, f.0, f.1)])
        }
        8 => {
            // a large Bezier that over-grows the (never shrinking) subdivision buffers
            let n = 20 + rng.below(40);
            let mut v = vec![(1, 0.0, 0.0)];
            for _ in 1..n {
                let p = c(rng);
                v.push((-1, p.0, p.1));
            }
            flat(&v)
        }
        9 => {
            // duplicates and zero-length pieces
            let a = c(rng);
            flat(&[(*rng.pick(&[1, 2, 0]), 0.0, 0.0), (-1, a.0, a.1), (-1, a.0, a.1), (-1, 0.0, 0.0)])
        }
        10 => {
            let n = 3 + rng.below(5);
            let mut v = vec![(10 + rng.below(4) as i64, 0.0, 0.0)];
            for _ in 1..n {
                let p = c(rng);
                v.push((-1, p.0, p.1));
            }
            flat(&v)
        }
        _ => {
            // random typed points anywhere (including a typed last point and untyped first point)
            let n = 1 + rng.below(8);
            let mut v = Vec::new();
            for _ in 0..n {
                let p = c(rng);
                v.push((*rng.pick(&[-1, -1, -1, 0, 1, 2, 3]), p.0, p.1));
            }
            flat(&v)
        }
    }
}
fn gen_len(rng: &mut Rng) -> f64 {
    *rng.pick(&[f64::NAN, f64::NAN, 1.0, 50.0, 150.0, 1000.0, 1e6, 0.0, -5.0, 0.001, 333.3333, 0.25, 0.25000000000000006, 1e-20, 5e-324, 150.00000000000003, 50.00000000000001, f64::INFINITY, f64::NEG_INFINITY, -1e-17, 1e308])
}

const FIXED_LISTS: &[&[(i64, f64, f64)]] = &[
    &[],
    &[(2, 0.0, 0.0)],
    &[(2, 0.0, 0.0), (-1, 100.0, 0.0)],
    &[(1, 0.0, 0.0), (-1, 50.0, 80.0), (-1, 100.0, -30.0), (-1, 150.0, 10.0)],
    &[(3, 0.0, 0.0), (-1, 50.0, 50.0), (-1, 100.0, 0.0)],
    &[(0, 0.0, 0.0), (-1, 30.0, 60.0), (-1, 80.0, 10.0), (-1, 120.0, 90.0)],
];

fn decoded_count(tier: Tier) -> u64 {
    match tier {
        Tier::Quick => 30_000,
        Tier::Thorough => 1_500_000,
    }
}

/// The decoder and the encoder as clients: every slider of a decoded map carries a curve cached from ONE shared
/// CurveBuffers (decoder post-processing); it must equal the curve computed on fresh buffers, before and after encode,
/// and so must what the accessors return with a user-owned shared buffer set.
fn exec_decoded(plan: &Plan, st: &mut Stats) -> Result<(), Violation> {
    use rosu_map::Beatmap;
    let Ok(text) = std::str::from_utf8(&plan.data) else { return Ok(()) };
    // mode-agnostic part: for every slider, dropping the cached curve and recomputing it must not change anything —
    // as decoded, and again after the encoder has walked the map (whose mode a user may have changed in between: a
    // path keeps the mode it was created for)
    {
        let mut map: rosu_map::Beatmap = rosu_map::from_bytes(&plan.data).map_err(|e| Violation::new("C18/decode-error", "err", e.to_string()))?;
        for pass in 0..2 {
            for (k, h) in map.hit_objects.iter_mut().enumerate() {
                let HitObjectKind::Slider(ref mut sl) = h.kind else { continue };
                let cached = {
                    let c = sl.path.curve();
                    snap(c.path(), c.lengths())
                };
                let mut twin = sl.path.clone();
                twin.clear_curve();
                let recomputed = {
                    let c = twin.curve();
                    snap(c.path(), c.lengths())
                };
                let b = {
                    let mut ub = CurveBuffers::default();
                    let c = twin.borrowed_curve(&mut ub);
                    snap(c.path(), c.lengths())
                };
                st.inc("ops.cache-vs-recomputed");
                if cached != recomputed || b != recomputed {
                    let who = if pass == 0 { "decoder" } else { "encoder" };
                    return Err(Violation::new("C18/cache-differs-from-recomputation", "stale-cache", format!("slider #{k}: the curve cached by the {who} has {} path points, the same SliderPath recomputes {} after clear_curve() ({} control points)", cached.path.len(), recomputed.path.len(), sl.path.control_points().len())));
                }
            }
            if pass == 0 {
                let em = plan.get_or("edit_mode", -1);
                if em >= 0 {
                    map.mode = mode_of(em);
                    st.inc("ops.decoded-map-mode-edited-before-encode");
                }
                let mut out = Vec::new();
                if map.encode(&mut out).is_err() {
                    break;
                }
            }
        }
    }
    // the path's mode is the mode known when its line was parsed: require [General]'s Mode before [HitObjects]
    if let (Some(m), Some(h)) = (text.find("Mode"), text.find("[HitObjects]")) {
        if m > h {
            return Ok(());
        }
    }
    if text.matches("Mode").count() > 1 {
        return Ok(());
    }
    let mut map: Beatmap = rosu_map::from_bytes(&plan.data).map_err(|e| Violation::new("C18/decode-error", "err", e.to_string()))?;
    let mode = map.mode;
    let mut user_bufs = CurveBuffers::default();
    let mut acc = Fnv::new();
    for round in 0..2 {
        let mut prev_pts = 0usize;
        for (k, h) in map.hit_objects.iter_mut().enumerate() {
            let start = h.start_time;
            let HitObjectKind::Slider(ref mut sl) = h.kind else { continue };
            st.inc("steps.ops_applied");
            let pts = sl.path.control_points().to_vec();
            let len = sl.path.expected_dist();
            let want = fresh(mode, &pts, len);
            if pts.len() < prev_pts {
                st.inc("probe.decoded-slider-smaller-than-its-predecessor");
            }
            prev_pts = pts.len();
            let cached = {
                let c = sl.path.curve();
                snap(c.path(), c.lengths())
            };
            acc.u64(cached.path.len() as u64);
            let who = if round == 0 { "decoder post-processing" } else { "encoder" };
            if cached != want {
                return Err(Violation::new("C18/differs-from-fresh-buffers", if pts.is_empty() { "empty-control-point-list" } else { "reuse" }, format!("slider #{k} at {start}: curve cached by the {who} has {} path points / {} lengths, fresh buffers give {} / {} ({} control points)", cached.path.len(), cached.lengths.len(), want.path.len(), want.lengths.len(), pts.len())));
            }
            let b = {
                let c = sl.path.borrowed_curve(&mut user_bufs);
                snap(c.path(), c.lengths())
            };
            if b != want {
                return Err(Violation::new("C18/differs-from-fresh-buffers", "reuse", format!("slider #{k}: borrowed_curve with a shared user buffer differs from fresh buffers after the {who} ran")));
            }
            // an uncached twin computed on the shared user buffers (what a downstream crate does)
            let twin = {
                let c = BorrowedCurve::new(mode, &pts, len, &mut user_bufs);
                snap(c.path(), c.lengths())
            };
            if twin != want {
                return Err(Violation::new("C18/differs-from-fresh-buffers", if pts.is_empty() { "empty-control-point-list" } else { "reuse" }, format!("slider #{k}: BorrowedCurve::new on user buffers shared across the map's sliders differs from fresh buffers ({} control points)", pts.len())));
            }
            st.inc("ops.decoded-map-sliders-checked");
        }
        if round == 0 {
            let mut out = Vec::new();
            // a user edits the decoded map through the public API before saving it: control points moved (all, or only the
            // first one — the file format cannot express that, the API can), slider moved, length changed
            let nsl = map.hit_objects.iter().filter(|h| matches!(h.kind, HitObjectKind::Slider(_))).count();
            for op in plan.ops.iter().filter(|o| o.k == "edit") {
                if nsl == 0 {
                    break;
                }
                let target = op.iarg(0).rem_euclid(nsl as i64) as usize;
                let Some(sl) = map.hit_objects.iter_mut().filter_map(|h| if let HitObjectKind::Slider(ref mut s) = h.kind { Some(s) } else { None }).nth(target) else { continue };
                st.inc("ops.decoded-map-edits");
                let (dx, dy) = (op.arg(2) as f32, op.arg(3) as f32);
                match op.iarg(1) {
                    0 => {
                        for c in sl.path.control_points_mut().iter_mut() {
                            c.pos = Pos::new(c.pos.x + dx, c.pos.y + dy);
                        }
                    }
                    1 => sl.pos = Pos::new(sl.pos.x + dx, sl.pos.y + dy),
                    2 => {
                        let d = sl.path.expected_dist().map(|d| d + f64::from(dx));
                        *sl.path.expected_dist_mut() = d;
                    }
                    4 | 5 => {
                        // shapes only the API can build (the decoder retags or rejects them): a collinear, unevenly spaced
                        // perfect curve, perfect curves of two and four points, a typed last point, an untyped first point
                        let t = |c: i64| ptype(c);
                        let pc = |c: i64, x: f32, y: f32| PathControlPoint { pos: Pos::new(x, y), path_type: t(c) };
                        let lists: [Vec<PathControlPoint>; 6] = [
                            vec![pc(3, 0.0, 0.0), pc(-1, 30.0, 30.0), pc(-1, 100.0, 100.0)],
                            vec![pc(3, 0.0, 0.0), pc(-1, 50.0, 0.0)],
                            vec![pc(3, 0.0, 0.0), pc(-1, 50.0, 40.0), pc(-1, 100.0, 0.0), pc(-1, 150.0, 40.0)],
                            vec![pc(1, 0.0, 0.0), pc(-1, 60.0, 10.0), pc(2, 120.0, 0.0)],
                            vec![pc(-1, 0.0, 0.0), pc(-1, 40.0, 40.0), pc(3, 80.0, 0.0), pc(-1, 120.0, 40.0), pc(-1, 160.0, 0.0)],
                            vec![pc(3, 10.0, 10.0), pc(-1, 20.0, 20.0), pc(-1, 40.0, 40.0), pc(2, 40.0, 40.0), pc(-1, 90.0, 40.0)],
                        ];
                        let l = &lists[(dx.abs() as usize + dy.abs() as usize) % lists.len()];
                        let cps = sl.path.control_points_mut();
                        cps.clear();
                        cps.extend_from_slice(l);
                    }
                    _ => {
                        if let Some(c) = sl.path.control_points_mut().first_mut() {
                            c.pos = Pos::new(c.pos.x + dx, c.pos.y + dy);
                        }
                    }
                }
            }
            // the encoder walks the sliders with its own shared buffers and refreshes nothing it should not; the curves it
            // meets are absent (keep 0), all cached (keep 1) or cached on every other slider (keep 2)
            let keep = plan.get_or("keep", 0);
            for (k, h) in map.hit_objects.iter_mut().enumerate() {
                if let HitObjectKind::Slider(ref mut sl) = h.kind {
                    if keep == 0 || (keep == 2 && k % 2 == 1) {
                        sl.path.clear_curve();
                    } else {
                        let _ = sl.path.curve();
                    }
                }
            }
            if map.encode(&mut out).is_err() {
                return Ok(()); // encoding failures are C01's business
            }
            st.inc("ops.encode-as-buffer-client");
        }
    }
    st.outcome = acc.finish();
    Ok(())
}

fn enum_count(maxlen: u32) -> u64 {
    (0..=maxlen).map(|l| 24u64.pow(l)).sum()
}
fn maxlen(tier: Tier) -> u32 {
    match tier {
        Tier::Quick => 3,
        Tier::Thorough => 4,
    }
}

impl Scenario for C18 {
    fn id(&self) -> &'static str {
        "C18"
    }
    fn level(&self) -> &'static str {
        "exploration"
    }
    fn rule(&self) -> String {
        "Operation histories over one shared CurveBuffers, a pool of control-point lists (empty, single point, linear, Bezier 2..10 points, perfect curves incl. collinear, Catmull, multi-segment, B-spline with degree, large Bezier that over-grows the buffers, duplicates, randomly typed points) and four slider slots: ops {compute owned, compute borrowed (read or dropped unread), SliderPath::curve / curve_with_bufs / borrowed_curve, HitObjectSlider::duration_with_bufs, HitObject::end_time_with_bufs, push/pop/move/retype a control point through control_points_mut, change the length through expected_dist_mut, clear_curve, clone / clone_from between slots}; a quarter of the operations are followed by a scripted triple (fill the cache, mutate through an accessor, read through a cached API). (1) every sequence up to length 3 (quick) / 4 (thorough) over {owned, borrowed} x 6 fixed lists x {no length, 50} — enumerated; (2) seeded histories of length <= 24; (3) decoded-map: bundled / generated maps (with extra sliders of mixed sizes) decoded by the real decoder, whose post-processing shares one CurveBuffers across all sliders and caches each curve — every cached curve, borrowed_curve and BorrowedCurve::new on shared user buffers must equal fresh buffers, before and after the encoder has recomputed them with its own shared buffers. After every computing op: bit-identical to Curve::new on fresh buffers for the current (mode, points, length). Also: related lists (translated / mirrored / scaled), counter-wrap churn, lookup histories on warm vs cold curves, decoded maps edited through public fields and encoded with caches kept. Round 8: thread hand-offs (operations on freshly spawned, joined threads). Round 10: whole Debug rendering of small curves vs fresh buffers; API-only control-point shapes in decoded maps; buffer clones. Round 11: twin lists differing only in the sign of zero coordinates. Round 13: buffer-less API from a thread-local destructor during thread teardown. distinct_nontrivial = distinct plan hashes with >= 2 operations.".into()
    }
    fn assumptions(&self) -> Vec<String> {
        vec![
            "self-differential against the same code on fresh buffers: no geometric reference (that would be C16/C17, not applicable here)".into(),
            "comparison is bit-exact on f32 coordinates and f64 cumulative lengths".into(),
        ]
    }
    fn components(&self) -> J {
        J::obj().with("real", J::Arr(vec![J::str("Curve, BorrowedCurve, CurveBuffers, SliderPath (cache + accessors), HitObjectSlider::duration_with_bufs, HitObject::end_time_with_bufs")])).with("stub", J::Arr(vec![J::str("none")]))
    }
    fn total_runs(&self, tier: Tier) -> u64 {
        enum_count(maxlen(tier))
            + match tier {
                Tier::Quick => 120_000,
                Tier::Thorough => 5_000_000,
            }
            + decoded_count(tier)
    }
    fn plan(&self, seed: u64, idx: u64, tier: Tier) -> Plan {
        let ne = enum_count(maxlen(tier));
        if idx < ne {
            let mut p = Plan::new("C18", "enumerated", seed, idx);
            for l in FIXED_LISTS {
                p.ops.push(Op { k: "def".into(), a: flat(l) });
            }
            let mut k = idx;
            let mut len = 0u32;
            loop {
                let c = 24u64.pow(len);
                if k < c {
                    break;
                }
                k -= c;
                len += 1;
            }
            for _ in 0..len {
                let o = k % 24;
                k /= 24;
                let list = (o % 6) as f64;
                let l = if o / 6 % 2 == 0 { f64::NAN } else { 50.0 };
                if o / 12 == 0 {
                    p.ops.push(Op::new("owned", &[list, l, 0.0]));
                } else {
                    p.ops.push(Op::new("borrowed", &[list, l, 0.0, 1.0]));
                }
            }
            return p;
        }
        let mut rng = Rng::for_run(seed, "C18", idx);
        if idx >= self.total_runs(tier) - decoded_count(tier) {
            // the library's own clients of the shared buffers: the decoder's post-processing (one CurveBuffers for all
            // sliders of a map, results cached in each SliderPath) and the encoder
            let mut p = Plan::new("C18", "decoded-map", seed, idx);
            let mut text = if rng.chance(1, 2) {
                let f = self.corpus.pick(&mut rng, 12);
                p.note = self.corpus.files[f].0.clone();
                crate::corpus::file_text(&self.corpus.files[f].1)
            } else {
                crate::corpus::gen_osu(&mut rng)
            };
            // more sliders of mixed sizes, so that buffers grown by one are reused by a smaller one
            if rng.chance(2, 3) {
                if !text.contains("[HitObjects]") {
                    text.push_str("\n[HitObjects]\n");
                } else if !text.ends_with('\n') {
                    text.push('\n');
                }
                if text.trim_end().ends_with("[HitObjects]") || rng.chance(1, 2) {
                    let mut t = rng.range(0, 5000);
                    for _ in 0..1 + rng.below(10) {
                        let big = rng.chance(1, 3);
                        let n = if big { 12 + rng.below(40) } else { 1 + rng.below(4) };
                        let pts: Vec<String> = (0..n).map(|_| format!("{}:{}", rng.range(0, 512), rng.range(0, 384))).collect();
                        let letter = *rng.pick(&["B", "B", "L", "P", "C"]);
                        let seg2 = if rng.chance(1, 3) { format!("|{}|{}:{}|{}:{}", rng.pick(&["B", "L", "P", "C"]), rng.range(0, 512), rng.range(0, 384), rng.range(0, 512), rng.range(0, 384)) } else { String::new() };
                        let (x, y) = (rng.range(0, 512), rng.range(0, 384));
                        let path = format!("{letter}|{}{seg2}", pts.join("|"));
                        text.push_str(&format!("{x},{y},{t},2,0,{path},{},{}\n", 1 + rng.below(3), *rng.pick(&["", "0", "50", "300.5", "2000"])));
                        t += rng.range(-200, 900);
                        if rng.chance(1, 4) {
                            // the same shape pasted somewhere else (every coordinate shifted)
                            let (dx, dy) = (*rng.pick(&[64i64, -20, 7, 128]), *rng.pick(&[32i64, 10, -5, 0]));
                            let shift = |s: &str| -> String {
                                s.split('|')
                                    .map(|tok| match tok.split_once(':') {
                                        Some((a, b)) => match (a.parse::<i64>(), b.parse::<i64>()) {
                                            (Ok(a), Ok(b)) => format!("{}:{}", a + dx, b + dy),
                                            _ => tok.to_string(),
                                        },
                                        None => tok.to_string(),
                                    })
                                    .collect::<Vec<_>>()
                                    .join("|")
                            };
                            text.push_str(&format!("{},{},{t},2,0,{},{},{}\n", x + dx, y + dy, shift(&path), 1 + rng.below(3), *rng.pick(&["", "0", "50", "120", "300.5"])));
                            t += rng.range(0, 900);
                        }
                        if rng.chance(1, 3) {
                            // copy-pasted slider: same shape, another (or no) pixel length, possibly next in start-time order
                            text.push_str(&format!("{x},{y},{t},2,0,{path},{},{}\n", 1 + rng.below(3), *rng.pick(&["", "0", "50", "75.25", "300.5", "2000", "0.0001"])));
                            t += rng.range(0, 900);
                        }
                    }
                }
            }
            p.data = text.into_bytes();
            p.set("keep", rng.below(3) as i64);
            if rng.chance(1, 4) {
                p.set("edit_mode", rng.below(4) as i64);
            }
            if rng.chance(1, 3) {
                for _ in 0..1 + rng.below(3) {
                    p.ops.push(Op::new("edit", &[rng.below(64) as f64, rng.below(6) as f64, *rng.pick(&[16.0, -8.0, 0.5, 100.0, 0.0]), *rng.pick(&[-8.0, 16.0, 0.25, 0.0, -100.0])]));
                }
            }
            return p;
        }
        let mut p = Plan::new("C18", "interleaved-clients", seed, idx);
        if rng.chance(1, 8) {
            p.set("threads", 1 + rng.below(2) as i64);
        }
        let nl = 3 + rng.below(6);
        let mut defs: Vec<Vec<f64>> = Vec::new();
        let mut twins: Vec<(usize, usize)> = Vec::new();
        for i in 0..nl {
            let l = if i == 0 && rng.chance(1, 2) {
                vec![]
            } else if i > 0 && rng.chance(1, 4) {
                // the same shape somewhere else: an earlier list translated, mirrored or scaled (a result remembered per
                // "shape" must not leak the other list's absolute coordinates)
                let src = rng.below(i);
                let mut l = defs[src].clone();
                let (dx, dy) = (*rng.pick(&[64.0, -20.0, 0.0, 0.5, 1000.0]), *rng.pick(&[32.0, 10.0, 0.0, -0.25, -300.0]));
                // (no scaling of the far-out lists: their cost is bounded by generation, not by the code under test)
                let far = l.chunks_exact(3).any(|c| c[1].abs() > 1e4 || c[2].abs() > 1e4);
                let how = if far { rng.below(3) } else { rng.below(5) };
                if how == 4 {
                    twins.push((src, i));
                }
                for c in l.chunks_exact_mut(3) {
                    match how {
                        4 => {
                            // the same list with the sign of every zero coordinate flipped (equal under ==, not the same bits)
                            if c[1] == 0.0 {
                                c[1] = -c[1];
                            }
                            if c[2] == 0.0 {
                                c[2] = -c[2];
                            }
                        }
                        0 | 1 => {
                            c[1] += dx;
                            c[2] += dy;
                        }
                        2 => c[1] = -c[1],
                        _ => {
                            c[1] *= 2.0;
                            c[2] *= 2.0;
                        }
                    }
                }
                l
            } else {
                gen_list(&mut rng)
            };
            defs.push(l.clone());
            p.ops.push(Op { k: "def".into(), a: l });
        }
        let n = 1 + rng.below(24);
        for _ in 0..n {
            let list = rng.below(nl) as f64;
            let slot = rng.below(4) as f64;
            let mode = rng.below(4) as f64;
            let op = match rng.below(20) {
                0..=2 => Op::new("owned", &[list, gen_len(&mut rng), mode]),
                3..=6 => Op::new("borrowed", &[list, gen_len(&mut rng), mode, if rng.chance(1, 4) { 0.0 } else { 1.0 }]),
                7 | 8 => Op::new("sp_new", &[slot, list, gen_len(&mut rng), mode, rng.below(3) as f64]),
                9 => Op::new("sp_curve", &[slot]),
                10 => Op::new("sp_curve_bufs", &[slot]),
                11 | 12 => Op::new("sp_borrowed", &[slot, if rng.chance(1, 4) { 0.0 } else { 1.0 }]),
                13 => Op::new("sp_duration", &[slot, if rng.chance(1, 3) { 2.0 } else { 1.0 }]),
                14 => Op::new("sp_end_time", &[slot, if rng.chance(1, 3) { 2.0 } else { 1.0 }]),
                15 => Op::new("sp_push", &[slot, *rng.pick(&[-1.0, -1.0, 1.0, 2.0, 3.0, 0.0]), rng.range(0, 512) as f64, rng.range(0, 384) as f64]),
                16 => Op::new("sp_pop", &[slot]),
                17 => Op::new("sp_set", &[slot, rng.below(6) as f64, rng.range(0, 512) as f64, rng.range(0, 384) as f64]),
                18 => Op::new("sp_len", &[slot, gen_len(&mut rng)]),
                _ if rng.chance(1, 6) => Op::new("bufs_clone", &[rng.below(2) as f64]),
                _ if rng.chance(1, 12) => Op::new("tls_teardown", &[list, gen_len(&mut rng), mode]),
                _ => {
                    if rng.chance(1, 2) {
                        Op::new("sp_clear", &[slot])
                    } else {
                        Op::new("sp_settype", &[slot, rng.below(6) as f64, *rng.pick(&[-1.0, 0.0, 1.0, 2.0, 3.0])])
                    }
                }
            };
            p.ops.push(op);
            if rng.chance(1, 4) {
                // scripted triple on one slot: fill the cache, mutate through an accessor, read through a cached API
                let fill = *rng.pick(&["sp_curve", "sp_curve_bufs", "sp_duration", "sp_end_time"]);
                let read = *rng.pick(&["sp_curve", "sp_curve_bufs", "sp_borrowed", "sp_duration"]);
                p.ops.push(Op::new(fill, &[slot]));
                p.ops.push(match rng.below(4) {
                    0 => Op::new("sp_len", &[slot, gen_len(&mut rng)]),
                    1 => Op::new("sp_push", &[slot, -1.0, rng.range(0, 512) as f64, rng.range(0, 384) as f64]),
                    2 => {
                        if rng.chance(1, 2) {
                            Op::new("sp_clone_from", &[slot, rng.below(4) as f64])
                        } else if rng.chance(1, 2) {
                            Op::new("sp_swap", &[slot, rng.below(8) as f64, rng.below(8) as f64])
                        } else {
                            Op::new("sp_reverse", &[slot])
                        }
                    }
                    _ => Op::new("sp_set", &[slot, rng.below(6) as f64, rng.range(0, 512) as f64, rng.range(0, 384) as f64]),
                });
                p.ops.push(Op::new(read, &[slot, 1.0]));
            }
            if rng.chance(1, 10) {
                p.ops.push(Op::new(if rng.chance(1, 2) { "sp_clone" } else { "sp_clone_from" }, &[slot, rng.below(4) as f64]));
            }
            if let Some((a, b)) = twins.first().copied() {
                if rng.chance(1, 6) {
                    // two paths over twin lists, computed one right after the other through the same API
                    let (len, mode) = (gen_len(&mut rng), rng.below(4) as f64);
                    let api = *rng.pick(&["sp_curve", "sp_curve", "sp_curve_bufs", "sp_borrowed"]);
                    p.ops.push(Op::new("sp_new", &[0.0, a as f64, len, mode, 0.0]));
                    p.ops.push(Op::new("sp_new", &[1.0, b as f64, len, mode, 0.0]));
                    p.ops.push(Op::new(api, &[0.0, 1.0]));
                    p.ops.push(Op::new(api, &[1.0, 1.0]));
                }
            }
            if rng.chance(1, 60) {
                // fill the cache, then one real edit followed by n-1 mutable accesses that change nothing, n at the wrap
                // points of 8- and 16-bit counters, then read through a cached API
                p.ops.push(Op::new(*rng.pick(&["sp_curve", "sp_curve_bufs"]), &[slot]));
                p.ops.push(Op::new("sp_churn", &[slot, *rng.pick(&[256.0, 65536.0, 65536.0, 255.0, 257.0, 65535.0, 65537.0, 512.0, 131072.0]), rng.below(3) as f64, rng.range(0, 512) as f64]));
                p.ops.push(Op::new(*rng.pick(&["sp_curve", "sp_curve_bufs", "sp_borrowed", "sp_duration"]), &[slot, 1.0]));
            }
        }
        p
    }
    fn execute(&self, plan: &Plan, st: &mut Stats) -> Result<(), Violation> {
        if plan.scen == "decoded-map" {
            return exec_decoded(plan, st);
        }
        let mut bufs = CurveBuffers::default();
        let mut lists: Vec<Vec<PathControlPoint>> = Vec::new();
        // slot = (real hit object holding the slider + its path cache, harness model of (mode, points, len))
        struct Slot {
            obj: HitObject,
            mode: GameMode,
            pts: Vec<PathControlPoint>,
            len: Option<f64>,
        }
        let mut slots: Vec<Option<Slot>> = (0..4).map(|_| None).collect();
        let mut h = Fnv::new();
        let mut prev_kind = "";
        let mut prev_nonempty = false;
        let mut prev_op: Option<usize> = None;
        let threads = plan.get("threads");
        if threads != 0 {
            st.inc("ops.histories-with-thread-hand-offs");
        }
        for (i, op) in plan.ops.iter().enumerate() {
            if op.k == "def" {
                lists.push(points_of(&op.a));
                continue;
            }
            // hand-offs between threads: with threads == 1 every operation runs on a freshly spawned thread, with 2 every
            // other one (sequential hand-off; whatever the code keeps per thread starts from scratch there)
            let on_thread = threads == 1 || (threads == 2 && i % 2 == 0);
            let mut body = || -> Result<(), Violation> {
            st.inc("steps.ops_applied");
            if let Some(k) = PAIRS.idx(&op.k) {
                if let Some(p) = prev_op {
                    st.inc(PAIRS.name(p, k));
                }
                prev_op = Some(k);
            }
            let getlist = |k: i64| -> Option<&Vec<PathControlPoint>> { lists.get(k.rem_euclid(lists.len().max(1) as i64) as usize) };
            let fail = |what: &str, got: &Snap, want: &Snap, pts: usize| -> Violation {
                let sig = if pts == 0 { "empty-control-point-list" } else { "reuse" };
                Violation::new(
                    "C18/differs-from-fresh-buffers",
                    sig,
                    format!("op #{i} {}{:?} ({what}; {pts} control points): {} path points / {} lengths, fresh buffers give {} / {}; first differing path index {:?}", op.k, op.a, got.path.len(), got.lengths.len(), want.path.len(), want.lengths.len(), got.path.iter().zip(&want.path).position(|(a, b)| a != b)),
                )
            };
            match op.k.as_str() {
                "owned" | "borrowed" => {
                    let Some(pts) = getlist(op.iarg(0)) else { return Ok(()) };
                    let (len, mode) = (len_of(op.arg(1)), mode_of(op.iarg(2)));
                    let want = fresh(mode, pts, len);
                    if pts.is_empty() && prev_nonempty {
                        st.inc(if op.k == "borrowed" { "probe.borrowed-on-empty-list-after-nonempty-computation" } else { "probe.owned-on-empty-list-after-nonempty-computation" });
                    }
                    let got = if op.k == "owned" {
                        st.inc("ops.compute-owned");
                        let c = Curve::new(mode, pts, len, &mut bufs);
                        if c.path().len() <= 64 {
                            // everything a curve shows of itself (Debug covers every field, also ones added later)
                            let f = Curve::new(mode, pts, len, &mut CurveBuffers::default());
                            if format!("{c:?}") != format!("{f:?}") {
                                return Err(Violation::new("C18/differs-from-fresh-buffers", "whole-curve", format!("op #{i}: the Debug rendering of the owned curve computed on the shared buffers differs from the one computed on fresh buffers ({} control points)\n shared: {c:?}\n fresh : {f:?}", pts.len())));
                            }
                        }
                        snap(c.path(), c.lengths())
                    } else {
                        let c = BorrowedCurve::new(mode, pts, len, &mut bufs);
                        if op.arg(3) == 0.0 {
                            st.inc("fired.H1-borrowed-curve-dropped-unread");
                            drop(c);
                            prev_kind = "borrowed";
                            prev_nonempty = !pts.is_empty();
                            return Ok(());
                        }
                        st.inc("ops.compute-borrowed");
                        // the conversions and the scalar accessors are part of "whichever API"
                        let o = c.to_owned_curve();
                        // evaluating the same curve through the owned and the borrowed view must agree bit for bit
                        for pr in [0.0f64, 1.0, 0.5, -1.0, 2.0, 0.3, 0.999_999, f64::NAN] {
                            let (a, b) = (o.position_at(pr), c.position_at(pr));
                            if a.x.to_bits() != b.x.to_bits() || a.y.to_bits() != b.y.to_bits() || o.progress_to_dist(pr).to_bits() != c.progress_to_dist(pr).to_bits() {
                                return Err(Violation::new("C18/differs-from-fresh-buffers", "evaluation", format!("op #{i}: position_at({pr}) / progress_to_dist differ between the owned and the borrowed view of one and the same curve: {a:?} vs {b:?}")));
                            }
                            let d = c.progress_to_dist(pr);
                            if o.idx_of_dist(d) != c.idx_of_dist(d) {
                                return Err(Violation::new("C18/differs-from-fresh-buffers", "evaluation", format!("op #{i}: idx_of_dist({d}) differs between the owned and the borrowed view of the same curve")));
                            }
                        }
                        // lookup histories: a warm owned curve (looked at before, in this order) must answer like a cold copy
                        // and like the borrowed view. Distances: every stored cumulative length exactly, its neighbours,
                        // midpoints; order scrambled by a counter derived from the op index (no PRNG at execution time).
                        {
                            st.inc("ops.lookup-histories");
                            let ls = c.lengths();
                            let mut ds: Vec<f64> = Vec::new();
                            for (j, l) in ls.iter().enumerate().take(64) {
                                ds.push(*l);
                                ds.push(f64::from_bits(l.to_bits().wrapping_add(1)));
                                if j > 0 {
                                    ds.push((ls[j - 1] + l) / 2.0);
                                }
                            }
                            ds.push(c.dist());
                            ds.push(c.dist() * 0.75);
                            let n = ds.len();
                            let mut x = (i as u64).wrapping_mul(0x9E37_79B9_7F4A_7C15) | 1;
                            for _ in 0..(2 * n).min(160).min(4 + 200_000 / c.path().len().max(1)) {
                                x ^= x << 13;
                                x ^= x >> 7;
                                x ^= x << 17;
                                let d = ds[(x % n as u64) as usize];
                                if d.is_nan() {
                                    return Ok(());
                                }
                                let cold = c.to_owned_curve();
                                let (a, b, cc) = (o.idx_of_dist(d), c.idx_of_dist(d), cold.idx_of_dist(d));
                                if a != b || a != cc {
                                    return Err(Violation::new("C18/differs-from-fresh-buffers", "evaluation", format!("op #{i}: idx_of_dist({d}) = {a} on an owned curve that answered other lookups before, {b} on the borrowed view, {cc} on a copy never looked at")));
                                }
                                let dist = c.dist();
                                if dist > 0.0 && dist.is_finite() {
                                    let pr = d / dist;
                                    let (a, b, cc) = (o.position_at(pr), c.position_at(pr), cold.position_at(pr));
                                    if (a.x.to_bits(), a.y.to_bits()) != (b.x.to_bits(), b.y.to_bits()) || (a.x.to_bits(), a.y.to_bits()) != (cc.x.to_bits(), cc.y.to_bits()) {
                                        return Err(Violation::new("C18/differs-from-fresh-buffers", "evaluation", format!("op #{i}: position_at({pr}) = {a:?} on an owned curve with a lookup history, {b:?} on the borrowed view, {cc:?} on a cold copy")));
                                    }
                                }
                            }
                        }
                        if c.path().len() <= 64 {
                            let mut fb = CurveBuffers::default();
                            let f = BorrowedCurve::new(mode, pts, len, &mut fb);
                            if format!("{c:?}") != format!("{f:?}") {
                                return Err(Violation::new("C18/differs-from-fresh-buffers", "whole-curve", format!("op #{i}: the Debug rendering of the borrowed curve computed on the shared buffers differs from the one computed on fresh buffers ({} control points)\n shared: {c:?}\n fresh : {f:?}", pts.len())));
                            }
                        }
                        let back = o.as_borrowed_curve();
                        // (bit-wise: a path may legitimately hold NaN coordinates, e.g. for an infinite requested length)
                        if snap(o.path(), o.lengths()) != snap(c.path(), c.lengths()) || o.dist().to_bits() != c.dist().to_bits() || snap(back.path(), back.lengths()) != snap(c.path(), c.lengths()) {
                            return Err(Violation::new("C18/differs-from-fresh-buffers", "conversion", format!("op #{i}: BorrowedCurve::to_owned_curve / Curve::as_borrowed_curve / dist() disagree with the borrowed curve they were made from")));
                        }
                        snap(c.path(), c.lengths())
                    };
                    if pts.len() >= 20 {
                        st.inc("fired.H2-buffers-overgrown-by-large-list");
                    }
                    h.u64(got.path.len() as u64);
                    if got != want {
                        return Err(fail("direct computation on the shared buffers", &got, &want, pts.len()));
                    }
                    prev_nonempty = !pts.is_empty();
                    prev_kind = if op.k == "owned" { "owned" } else { "borrowed" };
                }
                "tls_teardown" => {
                    // a thread whose own thread-local value uses the buffer-less API while the thread is being torn down
                    // (its destructor runs after those of thread-locals registered later): whatever the library keeps per
                    // thread must not be needed there
                    let Some(pts) = getlist(op.iarg(0)) else { return Ok(()) };
                    let (len, mode) = (len_of(op.arg(1)), mode_of(op.iarg(2)));
                    let want = fresh(mode, pts, len);
                    st.inc("ops.buffer-less-api-during-thread-teardown");
                    struct Guard(Option<(SliderPath, Snap)>);
                    impl Drop for Guard {
                        fn drop(&mut self) {
                            if let Some((mut p, want)) = self.0.take() {
                                p.clear_curve();
                                let c = p.curve();
                                if snap(c.path(), c.lengths()) != want {
                                    // (a destructor cannot return a verdict: make the process die, the supervisor reports it)
                                    std::process::abort();
                                }
                            }
                        }
                    }
                    thread_local! {
                        static GUARD: std::cell::RefCell<Guard> = const { std::cell::RefCell::new(Guard(None)) };
                    }
                    let pts = pts.clone();
                    let ok = crate::engine::on_fresh_thread(move || {
                        // register the guard first ...
                        GUARD.with(|g| g.borrow_mut().0 = Some((SliderPath::new(mode, pts.clone(), len), want.clone())));
                        // ... then let the library do whatever it does per thread
                        let mut p = SliderPath::new(mode, pts, len);
                        let c = p.curve();
                        snap(c.path(), c.lengths()) == want
                    });
                    if !ok {
                        return Err(Violation::new("C18/differs-from-fresh-buffers", "reuse", format!("op #{i}: SliderPath::curve() on a fresh thread differs from fresh buffers")));
                    }
                }
                "bufs_clone" => {
                    // the shared buffers are replaced by a clone of themselves (or cloned and the clone dropped): a copy
                    // must be as good as the original
                    st.inc("ops.buffers-cloned");
                    let c = bufs.clone();
                    if op.iarg(0) == 0 {
                        bufs = c;
                    }
                }
                "sp_new" => {
                    let Some(pts) = getlist(op.iarg(1)) else { return Ok(()) };
                    let (len, mode) = (len_of(op.arg(2)), mode_of(op.iarg(3)));
                    let slider = HitObjectSlider { pos: Pos::new(0.0, 0.0), new_combo: false, combo_offset: 0, path: SliderPath::new(mode, pts.clone(), len), node_samples: Vec::new(), repeat_count: op.iarg(4).clamp(0, 5) as i32, velocity: 1.25 };
                    let obj = HitObject { start_time: 1000.0, kind: HitObjectKind::Slider(slider), samples: Vec::new() };
                    let k = op.iarg(0).rem_euclid(4) as usize;
                    slots[k] = Some(Slot { obj, mode, pts: pts.clone(), len });
                }
                "sp_clone" | "sp_clone_from" => {
                    // dst = src.clone()  /  dst.clone_from(&src): afterwards dst must behave exactly like src
                    let (d, sidx) = (op.iarg(0).rem_euclid(4) as usize, op.iarg(1).rem_euclid(4) as usize);
                    if d == sidx || slots[sidx].is_none() {
                        return Ok(());
                    }
                    st.inc("ops.clone-slider");
                    let (src_obj, src_mode, src_pts, src_len) = {
                        let s0 = slots[sidx].as_ref().unwrap();
                        (s0.obj.clone(), s0.mode, s0.pts.clone(), s0.len)
                    };
                    if op.k == "sp_clone" || slots[d].is_none() {
                        slots[d] = Some(Slot { obj: src_obj, mode: src_mode, pts: src_pts, len: src_len });
                    } else {
                        let dst = slots[d].as_mut().unwrap();
                        // SliderPath::clone_from itself (a derived Clone on the containing types would not forward to it)
                        let src_path = match &src_obj.kind {
                            HitObjectKind::Slider(s) => s.path.clone(),
                            _ => unreachable!("slot objects are always sliders"),
                        };
                        let src_repeat = match &src_obj.kind {
                            HitObjectKind::Slider(s) => (s.repeat_count, s.velocity),
                            _ => unreachable!("slot objects are always sliders"),
                        };
                        let sl = slider_mut(&mut dst.obj);
                        sl.path.clone_from(&src_path);
                        sl.repeat_count = src_repeat.0;
                        sl.velocity = src_repeat.1;
                        dst.mode = src_mode;
                        dst.pts = src_pts;
                        dst.len = src_len;
                    }
                    let dst = slots[d].as_mut().unwrap();
                    let want = fresh(dst.mode, &dst.pts, dst.len);
                    let got = {
                        let c = slider_mut(&mut dst.obj).path.curve();
                        snap(c.path(), c.lengths())
                    };
                    if got != want {
                        return Err(fail("curve of a cloned slider", &got, &want, dst.pts.len()));
                    }
                    prev_kind = "cached";
                }
                k @ ("sp_curve" | "sp_curve_bufs" | "sp_borrowed" | "sp_duration" | "sp_end_time" | "sp_push" | "sp_pop" | "sp_set" | "sp_settype" | "sp_len" | "sp_clear" | "sp_swap" | "sp_reverse" | "sp_churn") => {
                    let si = op.iarg(0).rem_euclid(4) as usize;
                    let Some(slot) = slots[si].as_mut() else { return Ok(()) };
                    if !matches!(slot.obj.kind, HitObjectKind::Slider(_)) {
                        return Ok(());
                    }
                    let want = fresh(slot.mode, &slot.pts, slot.len);
                    match k {
                        "sp_curve" => {
                            st.inc("ops.path-curve");
                            let c = slider_mut(&mut slot.obj).path.curve();
                            let got = snap(c.path(), c.lengths());
                            if got != want {
                                return Err(fail("SliderPath::curve (cache)", &got, &want, slot.pts.len()));
                            }
                        }
                        "sp_curve_bufs" => {
                            st.inc("ops.path-curve_with_bufs");
                            let c = slider_mut(&mut slot.obj).path.curve_with_bufs(&mut bufs);
                            let got = snap(c.path(), c.lengths());
                            if got != want {
                                return Err(fail("SliderPath::curve_with_bufs (cache)", &got, &want, slot.pts.len()));
                            }
                        }
                        "sp_borrowed" => {
                            let c = slider_mut(&mut slot.obj).path.borrowed_curve(&mut bufs);
                            if op.arg(1) == 0.0 {
                                st.inc("fired.H1-borrowed-curve-dropped-unread");
                            } else {
                                st.inc("ops.path-borrowed_curve");
                                if slot.pts.is_empty() && prev_nonempty {
                                    st.inc("probe.borrowed-on-empty-list-after-nonempty-computation");
                                }
                                let got = snap(c.path(), c.lengths());
                                if got != want {
                                    return Err(fail("SliderPath::borrowed_curve", &got, &want, slot.pts.len()));
                                }
                            }
                        }
                        "sp_duration" | "sp_end_time" => {
                            let spans = f64::from(slider_mut(&mut slot.obj).span_count());
                            let vel = slider_mut(&mut slot.obj).velocity;
                            let dist = want.lengths.last().map_or(0.0, |b| f64::from_bits(*b));
                            let want_d = spans * dist / vel;
                            let nobufs = op.arg(1) == 2.0;
                            let got_d = if k == "sp_duration" {
                                st.inc("ops.slider-duration_with_bufs");
                                if nobufs {
                                    slider_mut(&mut slot.obj).duration()
                                } else {
                                    slider_mut(&mut slot.obj).duration_with_bufs(&mut bufs)
                                }
                            } else {
                                st.inc("ops.hitobject-end_time_with_bufs");
                                if nobufs {
                                    slot.obj.end_time() - 1000.0
                                } else {
                                    slot.obj.end_time_with_bufs(&mut bufs) - 1000.0
                                }
                            };
                            // end time adds and subtracts the start time: compare with the same arithmetic
                            let want_cmp = if k == "sp_duration" { want_d } else { (1000.0 + want_d) - 1000.0 };
                            if got_d.to_bits() != want_cmp.to_bits() {
                                return Err(Violation::new("C18/differs-from-fresh-buffers", if slot.pts.is_empty() { "empty-control-point-list" } else { "reuse" }, format!("op #{i} {k}: got {got_d}, fresh computation gives {want_cmp} (spans {spans}, dist {dist}, velocity {vel})")));
                            }
                        }
                        "sp_push" => {
                            st.inc("ops.mutate-points");
                            let pt = PathControlPoint { pos: Pos::new(op.arg(2) as f32, op.arg(3) as f32), path_type: ptype(op.iarg(1)) };
                            slider_mut(&mut slot.obj).path.control_points_mut().push(pt);
                            slot.pts.push(pt);
                        }
                        "sp_pop" => {
                            st.inc("ops.mutate-points");
                            slider_mut(&mut slot.obj).path.control_points_mut().pop();
                            slot.pts.pop();
                        }
                        "sp_set" => {
                            if !slot.pts.is_empty() {
                                st.inc("ops.mutate-points");
                                let j = op.iarg(1).rem_euclid(slot.pts.len() as i64) as usize;
                                let pos = Pos::new(op.arg(2) as f32, op.arg(3) as f32);
                                slider_mut(&mut slot.obj).path.control_points_mut()[j].pos = pos;
                                slot.pts[j].pos = pos;
                            }
                        }
                        "sp_settype" => {
                            if !slot.pts.is_empty() {
                                st.inc("ops.mutate-points");
                                let j = op.iarg(1).rem_euclid(slot.pts.len() as i64) as usize;
                                slider_mut(&mut slot.obj).path.control_points_mut()[j].path_type = ptype(op.iarg(2));
                                slot.pts[j].path_type = ptype(op.iarg(2));
                            }
                        }
                        "sp_swap" => {
                            if slot.pts.len() >= 2 {
                                st.inc("ops.mutate-points");
                                let (a, b) = (op.iarg(1).rem_euclid(slot.pts.len() as i64) as usize, op.iarg(2).rem_euclid(slot.pts.len() as i64) as usize);
                                slider_mut(&mut slot.obj).path.control_points_mut().swap(a, b);
                                slot.pts.swap(a, b);
                            }
                        }
                        "sp_reverse" => {
                            st.inc("ops.mutate-points");
                            slider_mut(&mut slot.obj).path.control_points_mut().reverse();
                            slot.pts.reverse();
                        }
                        "sp_churn" => {
                            st.inc("ops.mutate-churn");
                            let n = op.iarg(1).clamp(1, 200_000);
                            let path = &mut slider_mut(&mut slot.obj).path;
                            // the one real edit
                            match op.iarg(2) {
                                0 if !slot.pts.is_empty() => {
                                    let j = slot.pts.len() - 1;
                                    let pos = Pos::new(op.arg(3) as f32, slot.pts[j].pos.y + 1.0);
                                    path.control_points_mut()[j].pos = pos;
                                    slot.pts[j].pos = pos;
                                }
                                1 => {
                                    let l = Some(op.arg(3) + 0.5);
                                    *path.expected_dist_mut() = l;
                                    slot.len = l;
                                }
                                _ => {
                                    let pt = PathControlPoint { pos: Pos::new(op.arg(3) as f32, 7.0), path_type: None };
                                    path.control_points_mut().push(pt);
                                    slot.pts.push(pt);
                                }
                            }
                            // ... and n-1 accesses through the mutable accessors that change nothing
                            for r in 1..n {
                                if r % 2 == 0 {
                                    let _ = path.control_points_mut().len();
                                } else {
                                    let d = path.expected_dist();
                                    *path.expected_dist_mut() = d;
                                }
                            }
                        }
                        "sp_len" => {
                            st.inc("ops.mutate-length");
                            *slider_mut(&mut slot.obj).path.expected_dist_mut() = len_of(op.arg(1));
                            slot.len = len_of(op.arg(1));
                        }
                        _ => {
                            st.inc("ops.clear-cache");
                            slider_mut(&mut slot.obj).path.clear_curve();
                        }
                    }
                    if matches!(k, "sp_push" | "sp_pop" | "sp_set" | "sp_settype" | "sp_len" | "sp_swap" | "sp_reverse" | "sp_churn") && matches!(prev_kind, "cached") {
                        st.inc("probe.mutation-right-after-cache-fill");
                    }
                    if matches!(k, "sp_curve" | "sp_curve_bufs" | "sp_duration" | "sp_end_time") {
                        prev_kind = "cached";
                        prev_nonempty = !slot.pts.is_empty();
                    } else if k == "sp_borrowed" {
                        prev_kind = "borrowed";
                    } else {
                        prev_kind = "mutation";
                    }
                    // accessor consistency: the real path must still hold what the harness believes
                    if slider_mut(&mut slot.obj).path.control_points() != slot.pts.as_slice() || slider_mut(&mut slot.obj).path.expected_dist().map(f64::to_bits) != slot.len.map(f64::to_bits) {
                        return Err(Violation::new("C18/accessor-state", "accessor", format!("op #{i} {k}: SliderPath holds {} points / len {:?}, harness expects {} / {:?}", slider_mut(&mut slot.obj).path.control_points().len(), slider_mut(&mut slot.obj).path.expected_dist(), slot.pts.len(), slot.len)));
                    }
                }
                _ => {}
            }
                Ok(())
            };
            if on_thread {
                crate::engine::on_fresh_thread(body)?;
            } else {
                body()?;
            }
        }
        st.outcome = h.finish();
        Ok(())
    }
    fn nontrivial(&self, plan: &Plan) -> bool {
        plan.ops.iter().filter(|o| o.k != "def").count() >= 2 || plan.scen == "decoded-map"
    }
    fn reach_probes(&self) -> Vec<&'static str> {
        vec![
            "ops.compute-owned",
            "ops.compute-borrowed",
            "ops.path-curve",
            "ops.path-curve_with_bufs",
            "ops.path-borrowed_curve",
            "ops.slider-duration_with_bufs",
            "ops.hitobject-end_time_with_bufs",
            "ops.mutate-points",
            "ops.mutate-length",
            "ops.mutate-churn",
            "ops.buffers-cloned",
            "ops.buffer-less-api-during-thread-teardown",
            "ops.decoded-map-mode-edited-before-encode",
            "ops.histories-with-thread-hand-offs",
            "ops.lookup-histories",
            "ops.decoded-map-edits",
            "ops.clear-cache",
            "ops.clone-slider",
            "fired.H1-borrowed-curve-dropped-unread",
            "fired.H2-buffers-overgrown-by-large-list",
            "probe.borrowed-on-empty-list-after-nonempty-computation",
            "probe.mutation-right-after-cache-fill",
            "ops.decoded-map-sliders-checked",
            "ops.encode-as-buffer-client",
            "probe.decoded-slider-smaller-than-its-predecessor",
        ]
    }
}
