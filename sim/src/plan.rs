//! A plan is everything one simulated run does, decided in advance by the PRNG: workload bytes or operation
//! list, storage faults already applied to the bytes, transport schedule, positions of `Interrupted`, the hard
//! fault, swarm knobs. Executing a plan draws no randomness. A replay file *is* a plan.

use crate::json::{hex, unhex, J};
use crate::rng::Fnv;
use std::collections::BTreeMap;

#[derive(Clone, Debug, PartialEq)]
pub struct Op {
    pub k: String,
    pub a: Vec<f64>,
}
impl Op {
    pub fn new(k: &str, a: &[f64]) -> Op {
        Op { k: k.to_string(), a: a.to_vec() }
    }
    pub fn arg(&self, i: usize) -> f64 {
        self.a.get(i).copied().unwrap_or(0.0)
    }
    pub fn iarg(&self, i: usize) -> i64 {
        let v = self.arg(i);
        if v.is_finite() {
            v as i64
        } else {
            0
        }
    }
}

#[derive(Clone, Debug, PartialEq, Default)]
pub struct Plan {
    pub prop: String,
    /// sub-scenario inside the property's check
    pub scen: String,
    pub seed: u64,
    pub idx: u64,
    /// bytes at rest (after storage faults and encoding knob)
    pub data: Vec<u8>,
    /// integer knobs (decoder type, transport, fault offset/kind, buffer capacities, …)
    pub p: BTreeMap<String, i64>,
    /// chunk schedule of the simulated device
    pub sched: Vec<u32>,
    /// device-call indexes answered with `Interrupted`
    pub eintr: Vec<u32>,
    /// line history (S-LINE scenarios)
    pub lines: Vec<String>,
    /// operation history (S-OBJ scenarios)
    pub ops: Vec<Op>,
    /// which fault kinds were *planned* (fired counts are measured at execution)
    pub faults: Vec<String>,
    pub note: String,
}

impl Plan {
    pub fn new(prop: &str, scen: &str, seed: u64, idx: u64) -> Plan {
        Plan { prop: prop.into(), scen: scen.into(), seed, idx, ..Default::default() }
    }
    pub fn get(&self, k: &str) -> i64 {
        self.p.get(k).copied().unwrap_or(0)
    }
    pub fn get_or(&self, k: &str, d: i64) -> i64 {
        self.p.get(k).copied().unwrap_or(d)
    }
    pub fn set(&mut self, k: &str, v: i64) {
        self.p.insert(k.to_string(), v);
    }
    pub fn has(&self, k: &str) -> bool {
        self.p.contains_key(k)
    }

    /// Hash of what the run does (provenance fields excluded) — the "distinct plan" measure.
    pub fn hash(&self) -> u64 {
        let mut f = Fnv::new();
        f.str(&self.prop);
        f.str(&self.scen);
        f.u64(self.data.len() as u64);
        f.bytes(&self.data);
        for (k, v) in &self.p {
            f.str(k);
            f.u64(*v as u64);
        }
        f.u64(self.sched.len() as u64);
        for s in &self.sched {
            f.u64(u64::from(*s));
        }
        f.u64(self.eintr.len() as u64);
        for s in &self.eintr {
            f.u64(u64::from(*s));
        }
        for l in &self.lines {
            f.str(l);
        }
        for o in &self.ops {
            f.str(&o.k);
            for a in &o.a {
                f.u64(a.to_bits());
            }
        }
        f.finish()
    }

    pub fn to_json(&self) -> J {
        let mut o = J::obj();
        o.set("prop", J::str(&*self.prop));
        o.set("scen", J::str(&*self.scen));
        o.set("seed", J::u64s(self.seed));
        o.set("idx", J::u64s(self.idx));
        o.set("data_hex", J::str(hex(&self.data)));
        if !self.data.is_empty() {
            // human-readable preview only; ignored when loading
            let prev: String = String::from_utf8_lossy(&self.data[..self.data.len().min(400)]).into_owned();
            o.set("data_preview", J::str(prev));
        }
        let mut p = J::obj();
        for (k, v) in &self.p {
            p.set(k, J::Int(*v));
        }
        o.set("p", p);
        o.set("sched", J::Arr(self.sched.iter().map(|x| J::Int(i64::from(*x))).collect()));
        o.set("eintr", J::Arr(self.eintr.iter().map(|x| J::Int(i64::from(*x))).collect()));
        o.set("lines", J::Arr(self.lines.iter().map(|l| J::str(&**l)).collect()));
        o.set(
            "ops",
            J::Arr(
                self.ops
                    .iter()
                    .map(|op| {
                        let mut a = vec![J::str(&*op.k)];
                        a.extend(op.a.iter().map(|x| J::f64(*x)));
                        J::Arr(a)
                    })
                    .collect(),
            ),
        );
        o.set("faults", J::Arr(self.faults.iter().map(|l| J::str(&**l)).collect()));
        o.set("note", J::str(&*self.note));
        o
    }

    pub fn from_json(j: &J) -> Result<Plan, String> {
        let s = |k: &str| j.get(k).and_then(J::as_str).map(str::to_string).ok_or(format!("missing {k}"));
        let mut p = Plan::new(&s("prop")?, &s("scen")?, 0, 0);
        p.seed = s("seed")?.parse().map_err(|e| format!("seed: {e}"))?;
        p.idx = s("idx")?.parse().map_err(|e| format!("idx: {e}"))?;
        p.data = unhex(&s("data_hex")?)?;
        if let Some(J::Obj(m)) = j.get("p") {
            for (k, v) in m {
                p.p.insert(k.clone(), v.as_i64().ok_or("p value")?);
            }
        }
        let ints = |k: &str| -> Result<Vec<u32>, String> {
            Ok(j.get(k).and_then(J::as_arr).unwrap_or(&[]).iter().filter_map(J::as_i64).map(|x| x as u32).collect())
        };
        p.sched = ints("sched")?;
        p.eintr = ints("eintr")?;
        p.lines = j.get("lines").and_then(J::as_arr).unwrap_or(&[]).iter().filter_map(|x| x.as_str().map(str::to_string)).collect();
        for o in j.get("ops").and_then(J::as_arr).unwrap_or(&[]) {
            let a = o.as_arr().ok_or("op")?;
            let k = a.first().and_then(J::as_str).ok_or("op kind")?;
            let args: Option<Vec<f64>> = a[1..].iter().map(J::as_f64).collect();
            p.ops.push(Op { k: k.to_string(), a: args.ok_or("op arg")? });
        }
        p.faults = j.get("faults").and_then(J::as_arr).unwrap_or(&[]).iter().filter_map(|x| x.as_str().map(str::to_string)).collect();
        p.note = s("note").unwrap_or_default();
        Ok(p)
    }
}
