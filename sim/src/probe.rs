//! Harness-side implementations of the public `DecodeBeatmap` trait.
//! * `Rec` — recorder: stub section parsers behind the REAL driver / line reader / BOM sniffer (C05).
//! * `Probe<D>` — pass-through: forwards every line to the real parser of `D` and records the verdict that
//!   `decode` swallows (C06).
//! plus the nine provided decoder types behind one enum and the canonical fingerprint.

use crate::rng::Fnv;
use rosu_map::section::{
    colors::Colors, difficulty::Difficulty, editor::Editor, events::Events, general::General, hit_objects::HitObjects, metadata::Metadata, timing_points::TimingPoints, Section,
};
use rosu_map::{Beatmap, DecodeBeatmap, DecodeState};
use std::fmt::Write as _;
use std::io::{self, BufRead};

pub fn section_name(s: Section) -> &'static str {
    match s {
        Section::General => "General",
        Section::Editor => "Editor",
        Section::Metadata => "Metadata",
        Section::Difficulty => "Difficulty",
        Section::Events => "Events",
        Section::TimingPoints => "TimingPoints",
        Section::Colors => "Colours",
        Section::HitObjects => "HitObjects",
        Section::Variables => "Variables",
        Section::CatchTheBeat => "CatchTheBeat",
        Section::Mania => "Mania",
        // (a section the harness does not know: the enum grew)
        #[allow(unreachable_patterns)]
        _ => "Section-unknown-to-the-harness",
    }
}

// ---------------------------------------------------------------------------------------------- recorder

#[derive(Debug, PartialEq, Clone, Default)]
pub struct Rec {
    pub version: i32,
    pub log: Vec<(&'static str, String)>,
}
pub struct RecState(Rec);
impl DecodeState for RecState {
    fn create(version: i32) -> Self {
        RecState(Rec { version, log: vec![] })
    }
}
impl From<RecState> for Rec {
    fn from(s: RecState) -> Self {
        s.0
    }
}
#[derive(Debug)]
pub struct Never;
impl std::fmt::Display for Never {
    fn fmt(&self, _: &mut std::fmt::Formatter<'_>) -> std::fmt::Result {
        Ok(())
    }
}
impl std::error::Error for Never {}
macro_rules! rec {
    ($($f:ident => $s:ident),*) => { $(
        fn $f(state: &mut RecState, line: &str) -> Result<(), Never> {
            state.0.log.push((section_name(Section::$s), line.to_owned()));
            Ok(())
        }
    )* }
}
impl DecodeBeatmap for Rec {
    type Error = Never;
    type State = RecState;
    rec!(parse_general => General, parse_editor => Editor, parse_metadata => Metadata, parse_difficulty => Difficulty, parse_events => Events,
         parse_timing_points => TimingPoints, parse_colors => Colors, parse_hit_objects => HitObjects, parse_variables => Variables,
         parse_catch_the_beat => CatchTheBeat, parse_mania => Mania);
}

// ---------------------------------------------------------------------------------------------- probe

pub struct Probe<D: DecodeBeatmap> {
    pub inner: D,
    pub version: i32,
    /// (section, line, rejected)
    pub log: Vec<(&'static str, String, bool)>,
}
pub struct ProbeState<D: DecodeBeatmap> {
    inner: D::State,
    version: i32,
    log: Vec<(&'static str, String, bool)>,
}
impl<D: DecodeBeatmap> DecodeState for ProbeState<D> {
    fn create(v: i32) -> Self {
        Self { inner: D::State::create(v), version: v, log: vec![] }
    }
}
impl<D: DecodeBeatmap> From<ProbeState<D>> for Probe<D> {
    fn from(s: ProbeState<D>) -> Self {
        Probe { inner: s.inner.into(), version: s.version, log: s.log }
    }
}
macro_rules! probe {
    ($($f:ident => $s:ident),*) => { $(
        fn $f(state: &mut Self::State, line: &str) -> Result<(), Self::Error> {
            let r = D::$f(&mut state.inner, line);
            state.log.push((section_name(Section::$s), line.to_owned(), r.is_err()));
            r
        }
    )* }
}
impl<D: DecodeBeatmap> DecodeBeatmap for Probe<D> {
    type Error = D::Error;
    type State = ProbeState<D>;
    fn should_skip_line(line: &str) -> bool {
        D::should_skip_line(line)
    }
    probe!(parse_general => General, parse_editor => Editor, parse_metadata => Metadata, parse_difficulty => Difficulty, parse_events => Events,
           parse_timing_points => TimingPoints, parse_colors => Colors, parse_hit_objects => HitObjects, parse_variables => Variables,
           parse_catch_the_beat => CatchTheBeat, parse_mania => Mania);
}

// ---------------------------------------------------------------------------------------------- fingerprints

/// Canonical fingerprint of a decoded value: hash + length of its `Debug` rendering. Covers every field
/// (including ones `PartialEq` skips), distinguishes -0.0 from 0.0 and treats NaN as equal to itself.
#[derive(Clone, Copy, PartialEq, Eq, Debug)]
pub struct Fp(pub u64, pub u64);

struct FpW {
    h: Fnv,
    n: u64,
}
impl std::fmt::Write for FpW {
    fn write_str(&mut self, s: &str) -> std::fmt::Result {
        self.h.bytes(s.as_bytes());
        self.n += s.len() as u64;
        Ok(())
    }
}
pub fn fp<T: std::fmt::Debug>(v: &T) -> Fp {
    let mut w = FpW { h: Fnv::new(), n: 0 };
    let _ = write!(w, "{v:?}");
    Fp(w.h.finish(), w.n)
}

// ---------------------------------------------------------------------------------------------- decoders

#[derive(Clone, Copy, PartialEq, Eq, Debug)]
pub enum Dec {
    Beatmap,
    General,
    Editor,
    Metadata,
    Difficulty,
    Events,
    Colors,
    TimingPoints,
    HitObjects,
}
pub const DECS: [Dec; 9] = [Dec::Beatmap, Dec::General, Dec::Editor, Dec::Metadata, Dec::Difficulty, Dec::Events, Dec::Colors, Dec::TimingPoints, Dec::HitObjects];
impl Dec {
    pub fn from_i(i: i64) -> Dec {
        DECS[i.rem_euclid(9) as usize]
    }
    pub fn name(self) -> &'static str {
        match self {
            Dec::Beatmap => "Beatmap",
            Dec::General => "General",
            Dec::Editor => "Editor",
            Dec::Metadata => "Metadata",
            Dec::Difficulty => "Difficulty",
            Dec::Events => "Events",
            Dec::Colors => "Colors",
            Dec::TimingPoints => "TimingPoints",
            Dec::HitObjects => "HitObjects",
        }
    }
}

/// Decode with the chosen provided decoder through any `BufRead`, return the fingerprint.
pub fn decode_fp<R: BufRead>(dec: Dec, r: R) -> io::Result<Fp> {
    Ok(match dec {
        Dec::Beatmap => fp(&Beatmap::decode(r)?),
        Dec::General => fp(&General::decode(r)?),
        Dec::Editor => fp(&Editor::decode(r)?),
        Dec::Metadata => fp(&Metadata::decode(r)?),
        Dec::Difficulty => fp(&Difficulty::decode(r)?),
        Dec::Events => fp(&Events::decode(r)?),
        Dec::Colors => fp(&Colors::decode(r)?),
        Dec::TimingPoints => fp(&TimingPoints::decode(r)?),
        Dec::HitObjects => fp(&HitObjects::decode(r)?),
    })
}
pub fn decode_dbg<R: BufRead>(dec: Dec, r: R) -> io::Result<String> {
    Ok(match dec {
        Dec::Beatmap => format!("{:?}", Beatmap::decode(r)?),
        Dec::General => format!("{:?}", General::decode(r)?),
        Dec::Editor => format!("{:?}", Editor::decode(r)?),
        Dec::Metadata => format!("{:?}", Metadata::decode(r)?),
        Dec::Difficulty => format!("{:?}", Difficulty::decode(r)?),
        Dec::Events => format!("{:?}", Events::decode(r)?),
        Dec::Colors => format!("{:?}", Colors::decode(r)?),
        Dec::TimingPoints => format!("{:?}", TimingPoints::decode(r)?),
        Dec::HitObjects => format!("{:?}", HitObjects::decode(r)?),
    })
}
thread_local! {
    /// when set, the full decoder is reached through Beatmap's own entry points (`Beatmap::from_bytes`, `str::parse`,
    /// `Beatmap::from_path`) instead of the generic `rosu_map::from_*` functions
    pub static INHERENT: std::cell::Cell<bool> = const { std::cell::Cell::new(false) };
}
fn inherent() -> bool {
    INHERENT.with(|i| i.get())
}
pub fn from_bytes_fp(dec: Dec, b: &[u8]) -> io::Result<Fp> {
    Ok(match dec {
        Dec::Beatmap if inherent() => fp(&Beatmap::from_bytes(b)?),
        Dec::Beatmap => fp(&rosu_map::from_bytes::<Beatmap>(b)?),
        Dec::General => fp(&rosu_map::from_bytes::<General>(b)?),
        Dec::Editor => fp(&rosu_map::from_bytes::<Editor>(b)?),
        Dec::Metadata => fp(&rosu_map::from_bytes::<Metadata>(b)?),
        Dec::Difficulty => fp(&rosu_map::from_bytes::<Difficulty>(b)?),
        Dec::Events => fp(&rosu_map::from_bytes::<Events>(b)?),
        Dec::Colors => fp(&rosu_map::from_bytes::<Colors>(b)?),
        Dec::TimingPoints => fp(&rosu_map::from_bytes::<TimingPoints>(b)?),
        Dec::HitObjects => fp(&rosu_map::from_bytes::<HitObjects>(b)?),
    })
}
pub fn from_str_fp(dec: Dec, s: &str) -> io::Result<Fp> {
    Ok(match dec {
        Dec::Beatmap if inherent() => fp(&s.parse::<Beatmap>()?),
        Dec::Beatmap => fp(&rosu_map::from_str::<Beatmap>(s)?),
        Dec::General => fp(&rosu_map::from_str::<General>(s)?),
        Dec::Editor => fp(&rosu_map::from_str::<Editor>(s)?),
        Dec::Metadata => fp(&rosu_map::from_str::<Metadata>(s)?),
        Dec::Difficulty => fp(&rosu_map::from_str::<Difficulty>(s)?),
        Dec::Events => fp(&rosu_map::from_str::<Events>(s)?),
        Dec::Colors => fp(&rosu_map::from_str::<Colors>(s)?),
        Dec::TimingPoints => fp(&rosu_map::from_str::<TimingPoints>(s)?),
        Dec::HitObjects => fp(&rosu_map::from_str::<HitObjects>(s)?),
    })
}
pub fn from_path_fp(dec: Dec, p: &std::path::Path) -> io::Result<Fp> {
    Ok(match dec {
        Dec::Beatmap if inherent() => fp(&Beatmap::from_path(p)?),
        Dec::Beatmap => fp(&rosu_map::from_path::<Beatmap>(p)?),
        Dec::General => fp(&rosu_map::from_path::<General>(p)?),
        Dec::Editor => fp(&rosu_map::from_path::<Editor>(p)?),
        Dec::Metadata => fp(&rosu_map::from_path::<Metadata>(p)?),
        Dec::Difficulty => fp(&rosu_map::from_path::<Difficulty>(p)?),
        Dec::Events => fp(&rosu_map::from_path::<Events>(p)?),
        Dec::Colors => fp(&rosu_map::from_path::<Colors>(p)?),
        Dec::TimingPoints => fp(&rosu_map::from_path::<TimingPoints>(p)?),
        Dec::HitObjects => fp(&rosu_map::from_path::<HitObjects>(p)?),
    })
}
