//! Minimal JSON value, writer and parser (no third-party crates so the framework builds offline from nothing).
//! Numbers: integers are kept as i64 when they fit; floats use Rust's shortest round-tripping repr, so finite
//! f64 values survive a write/parse cycle bit-exactly. Non-finite floats are written as strings ("NaN","inf","-inf").

use std::collections::BTreeMap;
use std::fmt::Write as _;

#[derive(Clone, Debug, PartialEq)]
pub enum J {
    Null,
    Bool(bool),
    Int(i64),
    Num(f64),
    Str(String),
    Arr(Vec<J>),
    Obj(BTreeMap<String, J>),
}

impl J {
    pub fn obj() -> J {
        J::Obj(BTreeMap::new())
    }
    pub fn set(&mut self, k: &str, v: J) -> &mut J {
        if let J::Obj(m) = self {
            m.insert(k.to_string(), v);
        }
        self
    }
    pub fn with(mut self, k: &str, v: J) -> J {
        self.set(k, v);
        self
    }
    pub fn get(&self, k: &str) -> Option<&J> {
        match self {
            J::Obj(m) => m.get(k),
            _ => None,
        }
    }
    pub fn as_str(&self) -> Option<&str> {
        match self {
            J::Str(s) => Some(s),
            _ => None,
        }
    }
    pub fn as_i64(&self) -> Option<i64> {
        match self {
            J::Int(i) => Some(*i),
            J::Num(f) if f.fract() == 0.0 && f.abs() < 9e15 => Some(*f as i64),
            _ => None,
        }
    }
    pub fn as_f64(&self) -> Option<f64> {
        match self {
            J::Int(i) => Some(*i as f64),
            J::Num(f) => Some(*f),
            J::Str(s) => match s.as_str() {
                "NaN" => Some(f64::NAN),
                "inf" => Some(f64::INFINITY),
                "-inf" => Some(f64::NEG_INFINITY),
                "-0" => Some(-0.0),
                _ => None,
            },
            _ => None,
        }
    }
    pub fn as_arr(&self) -> Option<&[J]> {
        match self {
            J::Arr(a) => Some(a),
            _ => None,
        }
    }
    pub fn f64(v: f64) -> J {
        if v.is_nan() {
            J::Str("NaN".into())
        } else if v == f64::INFINITY {
            J::Str("inf".into())
        } else if v == f64::NEG_INFINITY {
            J::Str("-inf".into())
        } else if v == 0.0 && v.is_sign_negative() {
            J::Str("-0".into())
        } else if v.fract() == 0.0 && v.abs() < 9e15 {
            J::Int(v as i64)
        } else {
            J::Num(v)
        }
    }
    pub fn str(s: impl Into<String>) -> J {
        J::Str(s.into())
    }
    pub fn u64s(v: u64) -> J {
        // u64 values may exceed 2^53; keep them as decimal strings
        J::Str(v.to_string())
    }

    pub fn write(&self, out: &mut String, indent: usize) {
        match self {
            J::Null => out.push_str("null"),
            J::Bool(b) => out.push_str(if *b { "true" } else { "false" }),
            J::Int(i) => {
                let _ = write!(out, "{i}");
            }
            J::Num(f) => {
                if f.is_finite() {
                    let _ = write!(out, "{f:?}");
                } else {
                    out.push_str("null");
                }
            }
            J::Str(s) => write_str(out, s),
            J::Arr(a) => {
                let scalar = a.iter().all(|x| !matches!(x, J::Arr(_) | J::Obj(_)));
                if a.is_empty() {
                    out.push_str("[]");
                } else if scalar {
                    out.push('[');
                    for (i, x) in a.iter().enumerate() {
                        if i > 0 {
                            out.push_str(", ");
                        }
                        x.write(out, indent);
                    }
                    out.push(']');
                } else {
                    out.push_str("[\n");
                    for (i, x) in a.iter().enumerate() {
                        pad(out, indent + 1);
                        x.write(out, indent + 1);
                        if i + 1 < a.len() {
                            out.push(',');
                        }
                        out.push('\n');
                    }
                    pad(out, indent);
                    out.push(']');
                }
            }
            J::Obj(m) => {
                if m.is_empty() {
                    out.push_str("{}");
                    return;
                }
                out.push_str("{\n");
                let n = m.len();
                for (i, (k, v)) in m.iter().enumerate() {
                    pad(out, indent + 1);
                    write_str(out, k);
                    out.push_str(": ");
                    v.write(out, indent + 1);
                    if i + 1 < n {
                        out.push(',');
                    }
                    out.push('\n');
                }
                pad(out, indent);
                out.push('}');
            }
        }
    }
    pub fn to_string_pretty(&self) -> String {
        let mut s = String::new();
        self.write(&mut s, 0);
        s.push('\n');
        s
    }
}

fn pad(out: &mut String, n: usize) {
    for _ in 0..n {
        out.push(' ');
    }
}

fn write_str(out: &mut String, s: &str) {
    out.push('"');
    for c in s.chars() {
        match c {
            '"' => out.push_str("\\\""),
            '\\' => out.push_str("\\\\"),
            '\n' => out.push_str("\\n"),
            '\r' => out.push_str("\\r"),
            '\t' => out.push_str("\\t"),
            c if (c as u32) < 0x20 || c == '\u{7f}' || c == '\u{2028}' || c == '\u{2029}' || c == '\u{feff}' => {
                let mut buf = [0u16; 2];
                for u in c.encode_utf16(&mut buf) {
                    let _ = write!(out, "\\u{:04x}", u);
                }
            }
            c => out.push(c),
        }
    }
    out.push('"');
}

pub fn parse(src: &str) -> Result<J, String> {
    let mut p = P { b: src.as_bytes(), i: 0 };
    p.ws();
    let v = p.val()?;
    p.ws();
    if p.i != p.b.len() {
        return Err(format!("trailing data at {}", p.i));
    }
    Ok(v)
}

struct P<'a> {
    b: &'a [u8],
    i: usize,
}
impl P<'_> {
    fn ws(&mut self) {
        while self.i < self.b.len() && matches!(self.b[self.i], b' ' | b'\n' | b'\r' | b'\t') {
            self.i += 1;
        }
    }
    fn val(&mut self) -> Result<J, String> {
        self.ws();
        match self.b.get(self.i).copied() {
            None => Err("eof".into()),
            Some(b'{') => {
                self.i += 1;
                let mut m = BTreeMap::new();
                self.ws();
                if self.b.get(self.i) == Some(&b'}') {
                    self.i += 1;
                    return Ok(J::Obj(m));
                }
                loop {
                    self.ws();
                    let k = self.string()?;
                    self.ws();
                    if self.b.get(self.i) != Some(&b':') {
                        return Err(format!("expected : at {}", self.i));
                    }
                    self.i += 1;
                    let v = self.val()?;
                    m.insert(k, v);
                    self.ws();
                    match self.b.get(self.i) {
                        Some(b',') => self.i += 1,
                        Some(b'}') => {
                            self.i += 1;
                            return Ok(J::Obj(m));
                        }
                        _ => return Err(format!("expected , or }} at {}", self.i)),
                    }
                }
            }
            Some(b'[') => {
                self.i += 1;
                let mut a = Vec::new();
                self.ws();
                if self.b.get(self.i) == Some(&b']') {
                    self.i += 1;
                    return Ok(J::Arr(a));
                }
                loop {
                    a.push(self.val()?);
                    self.ws();
                    match self.b.get(self.i) {
                        Some(b',') => self.i += 1,
                        Some(b']') => {
                            self.i += 1;
                            return Ok(J::Arr(a));
                        }
                        _ => return Err(format!("expected , or ] at {}", self.i)),
                    }
                }
            }
            Some(b'"') => Ok(J::Str(self.string()?)),
            Some(b't') if self.b[self.i..].starts_with(b"true") => {
                self.i += 4;
                Ok(J::Bool(true))
            }
            Some(b'f') if self.b[self.i..].starts_with(b"false") => {
                self.i += 5;
                Ok(J::Bool(false))
            }
            Some(b'n') if self.b[self.i..].starts_with(b"null") => {
                self.i += 4;
                Ok(J::Null)
            }
            Some(_) => {
                let st = self.i;
                while self.i < self.b.len() && matches!(self.b[self.i], b'-' | b'+' | b'.' | b'e' | b'E' | b'0'..=b'9') {
                    self.i += 1;
                }
                let t = std::str::from_utf8(&self.b[st..self.i]).map_err(|e| e.to_string())?;
                if t.is_empty() {
                    return Err(format!("unexpected byte at {st}"));
                }
                if let Ok(i) = t.parse::<i64>() {
                    Ok(J::Int(i))
                } else {
                    t.parse::<f64>().map(J::Num).map_err(|e| format!("{e} at {st}"))
                }
            }
        }
    }
    fn string(&mut self) -> Result<String, String> {
        if self.b.get(self.i) != Some(&b'"') {
            return Err(format!("expected string at {}", self.i));
        }
        self.i += 1;
        let mut out = String::new();
        let mut pending_hi: Option<u16> = None;
        loop {
            let Some(&c) = self.b.get(self.i) else { return Err("eof in string".into()) };
            match c {
                b'"' => {
                    self.i += 1;
                    if pending_hi.is_some() {
                        out.push('\u{fffd}');
                    }
                    return Ok(out);
                }
                b'\\' => {
                    let e = *self.b.get(self.i + 1).ok_or("eof in escape")?;
                    self.i += 2;
                    let ch = match e {
                        b'n' => '\n',
                        b'r' => '\r',
                        b't' => '\t',
                        b'b' => '\u{8}',
                        b'f' => '\u{c}',
                        b'/' => '/',
                        b'\\' => '\\',
                        b'"' => '"',
                        b'u' => {
                            let h = std::str::from_utf8(self.b.get(self.i..self.i + 4).ok_or("eof in \\u")?).map_err(|e| e.to_string())?;
                            let u = u16::from_str_radix(h, 16).map_err(|e| e.to_string())?;
                            self.i += 4;
                            if let Some(hi) = pending_hi.take() {
                                match char::decode_utf16([hi, u]).next() {
                                    Some(Ok(c)) => {
                                        out.push(c);
                                        continue;
                                    }
                                    _ => out.push('\u{fffd}'),
                                }
                            }
                            if (0xD800..0xDC00).contains(&u) {
                                pending_hi = Some(u);
                                continue;
                            }
                            char::from_u32(u32::from(u)).unwrap_or('\u{fffd}')
                        }
                        _ => return Err("bad escape".into()),
                    };
                    if pending_hi.take().is_some() {
                        out.push('\u{fffd}');
                    }
                    out.push(ch);
                }
                _ => {
                    if pending_hi.take().is_some() {
                        out.push('\u{fffd}');
                    }
                    // copy one UTF-8 char
                    let st = self.i;
                    let len = match c {
                        0x00..=0x7f => 1,
                        0xc0..=0xdf => 2,
                        0xe0..=0xef => 3,
                        _ => 4,
                    };
                    let s = std::str::from_utf8(self.b.get(st..st + len).ok_or("eof")?).map_err(|e| e.to_string())?;
                    out.push_str(s);
                    self.i += len;
                }
            }
        }
    }
}

pub fn hex(b: &[u8]) -> String {
    let mut s = String::with_capacity(b.len() * 2);
    for x in b {
        let _ = write!(s, "{x:02x}");
    }
    s
}
pub fn unhex(s: &str) -> Result<Vec<u8>, String> {
    if s.len() % 2 != 0 {
        return Err("odd hex".into());
    }
    (0..s.len()).step_by(2).map(|i| u8::from_str_radix(&s[i..i + 2], 16).map_err(|e| e.to_string())).collect()
}
