//! `tracing` configuration axis of C01: a hand-written subscriber that formats every event, so the `Display`
//! impls of all parse errors and the `log_error_cause` chain — code the default build never runs — execute on
//! every rejected line.

use std::fmt::Write as _;
use std::sync::atomic::{AtomicU64, Ordering};
use tracing::field::{Field, Visit};
use tracing::span;

pub static EVENTS: AtomicU64 = AtomicU64::new(0);
pub static BYTES: AtomicU64 = AtomicU64::new(0);

struct Sub;
struct V(String);
impl Visit for V {
    fn record_debug(&mut self, field: &Field, value: &dyn std::fmt::Debug) {
        let _ = write!(self.0, "{}={:?} ", field.name(), value);
    }
}
impl tracing::Subscriber for Sub {
    fn enabled(&self, _: &tracing::Metadata<'_>) -> bool {
        true
    }
    fn new_span(&self, _: &span::Attributes<'_>) -> span::Id {
        span::Id::from_u64(1)
    }
    fn record(&self, _: &span::Id, _: &span::Record<'_>) {}
    fn record_follows_from(&self, _: &span::Id, _: &span::Id) {}
    fn event(&self, event: &tracing::Event<'_>) {
        let mut v = V(String::new());
        event.record(&mut v);
        EVENTS.fetch_add(1, Ordering::Relaxed);
        BYTES.fetch_add(v.0.len() as u64, Ordering::Relaxed);
    }
    fn enter(&self, _: &span::Id) {}
    fn exit(&self, _: &span::Id) {}
}

pub fn install() {
    let _ = tracing::subscriber::set_global_default(Sub);
}
