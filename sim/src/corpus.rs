//! Workload sources: the bundled maps (sorted by name), a structured `.osu` generator, encoders for the four
//! on-disk text encodings, the whole-payload lossy text model, storage faults (S1–S6) and record faults (L1–L5).

use crate::rng::Rng;

pub struct Corpus {
    pub files: Vec<(String, Vec<u8>)>,
    /// indexes of files <= 8 KiB
    pub small: Vec<usize>,
    pub large: Vec<usize>,
}

pub fn resources_dir() -> String {
    std::env::var("VERIF_REPO").unwrap_or_else(|_| "/repo".to_string()) + "/resources"
}

impl Corpus {
    pub fn load() -> Result<Corpus, String> {
        let dir = resources_dir();
        let mut paths: Vec<_> = std::fs::read_dir(&dir).map_err(|e| format!("corpus dir {dir}: {e}"))?.filter_map(|e| e.ok().map(|e| e.path())).filter(|p| p.is_file()).collect();
        // directory-listing order never enters a decision: sort by file name bytes
        paths.sort();
        let mut files = Vec::new();
        for p in paths {
            let name = p.file_name().unwrap().to_string_lossy().into_owned();
            let b = std::fs::read(&p).map_err(|e| format!("{name}: {e}"))?;
            files.push((name, b));
        }
        if files.len() < 10 {
            return Err(format!("corpus at {dir} has only {} files", files.len()));
        }
        // two synthetic full-featured maps (every optional flag set, every section and object kind present), so that the
        // offset sweeps see every kind of output line; sorted after the bundled files by name
        for (i, m) in [0, 2].into_iter().enumerate() {
            files.push((format!("~synthetic-full-{i}.osu"), synthetic_full(m).into_bytes()));
        }
        files.push(("~synthetic-odd.osu".to_string(), synthetic_odd().into_bytes()));
        // a small map whose text is full of characters that are awkward in UTF-16 (code units made of CR / LF / NUL
        // bytes, surrogate pairs) and in UTF-8 (every lead-byte class), stored in the three BOM-marked encodings: the
        // offset sweeps then meet every byte of such characters
        for (n, e) in [("u8", Enc::Utf8Bom), ("le", Enc::Utf16Le), ("be", Enc::Utf16Be)] {
            files.push((format!("~synthetic-tricky-{n}.osu"), encode_text(&synthetic_tricky(), e)));
        }
        let small = (0..files.len()).filter(|&i| files[i].1.len() <= 8192).collect();
        let large = (0..files.len()).filter(|&i| files[i].1.len() > 8192).collect();
        Ok(Corpus { files, small, large })
    }
    /// Mostly small files (fast runs), sometimes a large one.
    pub fn pick(&self, rng: &mut Rng, large_one_in: usize) -> usize {
        if !self.large.is_empty() && large_one_in > 0 && rng.below(large_one_in) == 0 {
            *rng.pick(&self.large)
        } else {
            *rng.pick(&self.small)
        }
    }
}

// ------------------------------------------------------------------------------------------ encodings

#[derive(Clone, Copy, PartialEq, Eq, Debug)]
pub enum Enc {
    Utf8,
    Utf8Bom,
    Utf16Le,
    Utf16Be,
}
pub const ENCS: [Enc; 4] = [Enc::Utf8, Enc::Utf8Bom, Enc::Utf16Le, Enc::Utf16Be];
impl Enc {
    pub fn from_i(i: i64) -> Enc {
        ENCS[(i.rem_euclid(4)) as usize]
    }
    pub fn name(self) -> &'static str {
        match self {
            Enc::Utf8 => "utf8",
            Enc::Utf8Bom => "utf8-bom",
            Enc::Utf16Le => "utf16le-bom",
            Enc::Utf16Be => "utf16be-bom",
        }
    }
    pub fn bom(self) -> &'static [u8] {
        match self {
            Enc::Utf8 => &[],
            Enc::Utf8Bom => &[0xEF, 0xBB, 0xBF],
            Enc::Utf16Le => &[0xFF, 0xFE],
            Enc::Utf16Be => &[0xFE, 0xFF],
        }
    }
}

pub fn encode_text(t: &str, enc: Enc) -> Vec<u8> {
    let mut o = enc.bom().to_vec();
    match enc {
        Enc::Utf8 | Enc::Utf8Bom => o.extend_from_slice(t.as_bytes()),
        Enc::Utf16Le => {
            for u in t.encode_utf16() {
                o.extend(u.to_le_bytes());
            }
        }
        Enc::Utf16Be => {
            for u in t.encode_utf16() {
                o.extend(u.to_be_bytes());
            }
        }
    }
    o
}

/// What encoding the BOM sniffer must see, and where the payload starts.
pub fn sniff(bytes: &[u8]) -> (Enc, usize) {
    match bytes {
        [0xEF, 0xBB, 0xBF, ..] => (Enc::Utf8Bom, 3),
        [0xFF, 0xFE, ..] => (Enc::Utf16Le, 2),
        [0xFE, 0xFF, ..] => (Enc::Utf16Be, 2),
        _ => (Enc::Utf8, 0),
    }
}

/// Reference text of a byte string: sniff the BOM, convert the *whole* payload lossily with `std`
/// (`from_utf8_lossy`, `char::decode_utf16` with U+FFFD, odd tail byte dropped).
pub fn model_text(bytes: &[u8]) -> String {
    let (enc, skip) = sniff(bytes);
    let p = &bytes[skip..];
    match enc {
        Enc::Utf8 | Enc::Utf8Bom => String::from_utf8_lossy(p).into_owned(),
        Enc::Utf16Le => char::decode_utf16(p.chunks_exact(2).map(|c| u16::from_le_bytes([c[0], c[1]]))).map(|r| r.unwrap_or('\u{FFFD}')).collect(),
        Enc::Utf16Be => char::decode_utf16(p.chunks_exact(2).map(|c| u16::from_be_bytes([c[0], c[1]]))).map(|r| r.unwrap_or('\u{FFFD}')).collect(),
    }
}

/// Text of a bundled file (all are UTF-8, some with BOM).
pub fn file_text(bytes: &[u8]) -> String {
    model_text(bytes)
}

/// Re-encode bytes' text in another encoding.
pub fn transcode(bytes: &[u8], enc: Enc) -> Vec<u8> {
    encode_text(&model_text(bytes), enc)
}

// ------------------------------------------------------------------------------------------ storage faults

pub const DICT: &[u8] = b",|:[]/-.eNanBCLP\r\n\x00\xff0123456789 \t\"//";

/// Apply one storage fault; returns its name.
pub fn storage_fault(rng: &mut Rng, t: &mut Vec<u8>, corpus: &Corpus, allow: &[&'static str]) -> &'static str {
    let k = *rng.pick(allow);
    match k {
        "S1-truncate" => {
            let n = rng.below(t.len() + 1);
            t.truncate(n);
        }
        "S2-bitflip" => {
            if !t.is_empty() {
                let o = rng.below(t.len());
                t[o] ^= 1 << rng.below(8);
            }
        }
        "S2-overwrite" => {
            if !t.is_empty() {
                let o = rng.below(t.len());
                t[o] = if rng.chance(1, 4) { rng.below(256) as u8 } else { *rng.pick(DICT) };
            }
        }
        "S2-insert" => {
            let o = rng.below(t.len() + 1);
            let d = *rng.pick(DICT);
            t.insert(o, d);
        }
        "S3-torn" => {
            // prefix of this file + suffix of another, at a 512-byte or arbitrary boundary
            let (_, b2) = &corpus.files[corpus.pick(rng, 30)];
            let mut cut = rng.below(t.len() + 1);
            if rng.chance(1, 2) {
                cut = cut / 512 * 512;
            }
            let mut cut2 = rng.below(b2.len() + 1);
            if rng.chance(1, 2) {
                cut2 = cut2 / 512 * 512;
            }
            let end = b2.len().min(cut2 + 1 + rng.below(6000));
            t.truncate(cut);
            t.extend_from_slice(&b2[cut2..end]);
        }
        "S4-lostblock" => {
            if !t.is_empty() {
                let bs = *rng.pick(&[16usize, 64, 512, 4096]);
                let a = rng.below(t.len()) / bs * bs;
                let z = (a + bs).min(t.len());
                match rng.below(3) {
                    0 => {
                        t.drain(a..z);
                    }
                    1 => {
                        for x in &mut t[a..z] {
                            *x = 0;
                        }
                    }
                    _ => {
                        let blk = t[a..z].to_vec();
                        let at = z;
                        t.splice(at..at, blk);
                    }
                }
            }
        }
        "S6-invalid" => {
            // invalid-sequence injection appropriate to the detected encoding
            let (enc, skip) = sniff(t);
            let o = skip + rng.below(t.len().saturating_sub(skip) + 1);
            match enc {
                Enc::Utf8 | Enc::Utf8Bom => {
                    // (incl. well-known ill-formed schemes: CESU-8 surrogate pairs, overlong forms, code points beyond U+10FFFF, a
                    // UTF-16 or UTF-8 BOM in the middle)
                    let seqs: [&[u8]; 18] = [&[0x80], &[0xBF], &[0xC0, 0xAF], &[0xE0, 0x80, 0xAF], &[0xF8], &[0xFF], &[0xED, 0xA0, 0x80], &[0xE4, 0xB8], &[0xF0, 0x9F, 0x98], &[0xC3], &[0xED, 0xA0, 0xBD, 0xED, 0xB8, 0x80], &[0xED, 0xAF, 0xBF, 0xED, 0xBF, 0xBF], &[0xED, 0xB8, 0x80, 0xED, 0xA0, 0xBD], &[0xF4, 0x90, 0x80, 0x80], &[0xF0, 0x80, 0x80, 0xAF], &[0xC0, 0x80], &[0xFF, 0xFE], &[0xEF, 0xBB, 0xBF]];
                    if rng.chance(1, 8) {
                        // a burst: text in a legacy double-byte encoding (64..300 bytes >= 0x80 in a row, some pairs valid
                        // by accident), in the middle of a line
                        let n = 64 + rng.below(240);
                        let burst: Vec<u8> = (0..n).map(|_| 0x80 + rng.below(0x7D) as u8).collect();
                        t.splice(o..o, burst);
                    } else {
                        let s = *rng.pick(&seqs);
                        t.splice(o..o, s.iter().copied());
                    }
                }
                Enc::Utf16Le | Enc::Utf16Be => {
                    // lone surrogate at a code-unit aligned position, or an odd tail byte
                    if rng.chance(1, 5) {
                        t.push(*rng.pick(&[0x0Au8, 0x00, 0x41, 0xD8, 0xFF]));
                    } else {
                        let o = skip + (o - skip) / 2 * 2;
                        let u: u16 = *rng.pick(&[0xD800, 0xDBFF, 0xDC00, 0xDFFF, 0xD83D]);
                        let b = if enc == Enc::Utf16Le { u.to_le_bytes() } else { u.to_be_bytes() };
                        t.splice(o..o, b);
                    }
                }
            }
        }
        _ => {}
    }
    k
}

/// Bytes for the exhaustive short-prefix family: BOM pieces, NUL, line terminators, structural and plain characters.
pub const SHORT_ALPHABET: [u8; 12] = [0x00, 0x0A, 0x0D, 0xFE, 0xFF, 0xEF, 0xBB, 0xBF, b'[', b'o', b'1', 0x80];

/// Magic numbers of files users hand over by mistake (archives, images, audio, other text encodings).
pub const MAGICS: &[&[u8]] = &[b"PK\x03\x04", b"PK\x05\x06", b"\x89PNG\r\n\x1a\n", b"GIF89a", b"\xFF\xD8\xFF\xE0", b"OggS", b"ID3\x03", b"RIFF", b"\x1f\x8b\x08", b"7z\xBC\xAF\x27\x1C", b"%PDF-", b"\xFF\xFE\x00\x00", b"\x00\x00\xFE\xFF", b"+/v8", b"\x0E\xFE\xFF", b"<?xml", b"{\"", b"#!"];

pub const STORAGE_ALL: &[&str] = &["S1-truncate", "S2-bitflip", "S2-overwrite", "S2-insert", "S3-torn", "S4-lostblock", "S6-invalid"];

// ------------------------------------------------------------------------------------------ record faults

pub const HOSTILE: &[&str] = &[
    "2147483647", "-2147483648", "2147483648", "-2147483647", "1e39", "-1e39", "NaN", "nan", "inf", "-inf", "infinity", "131072", "131073", "-131072", "-131073", "9001", "9000", "-1", "0", "",
    "1e-320", "4294967296", "B", "P", "L", "C", "B3", "B0", "B-1", "x", "-", "+", "1:2:3:x", "B|1:1|x", "0x10", "1_000", " 5 ", "5 ", "٣", "1e", "1e+", ".", "-.", "1.", ".5", "1,2", "|", "||", ":", "::",
    "1\u{0}2", "\u{0}5", "340282350000000000000000000000000000000", "1e308", "1e309", "4e-46", "16777217", "0.30000000000000004", "-0", "-0.0",
];

fn sep_positions(l: &str) -> Vec<usize> {
    l.char_indices().filter(|(_, c)| matches!(c, ',' | '|' | ':')).map(|(i, _)| i).collect()
}

/// L1: corrupt one record so that its parser *may* reject it. Returns None if the line has no fields to corrupt.
pub fn corrupt_record(rng: &mut Rng, l: &str) -> Option<String> {
    let seps = sep_positions(l);
    if seps.is_empty() {
        return match rng.below(3) {
            0 => Some(format!("{l}{}", rng.pick(HOSTILE))),
            1 => Some(format!("{l},{}", rng.pick(HOSTILE))),
            _ => None,
        };
    }
    // bias towards the later separators (corruption deep inside a slider path leaves earlier segments converted)
    let j = if rng.chance(1, 2) { seps.len() - 1 - rng.below(seps.len().min(4)) } else { rng.below(seps.len()) };
    let a = seps[j] + 1;
    let z = seps.get(j + 1).copied().unwrap_or(l.len());
    Some(match rng.below(8) {
        0 | 1 | 2 => format!("{}{}{}", &l[..a], rng.pick(HOSTILE), &l[z..]), // field replaced by a boundary token
        3 => format!("{}{}", &l[..seps[j]], &l[z..]),                         // field deleted
        4 => {
            // two fields swapped
            let k = rng.below(seps.len());
            let (a2, z2) = (seps[k] + 1, seps.get(k + 1).copied().unwrap_or(l.len()));
            if k == j {
                format!("{}{}", l, rng.pick(HOSTILE))
            } else {
                let (lo, hi) = if a < a2 { ((a, z), (a2, z2)) } else { ((a2, z2), (a, z)) };
                format!("{}{}{}{}{}", &l[..lo.0], &l[hi.0..hi.1], &l[lo.1..hi.0], &l[lo.0..lo.1], &l[hi.1..])
            }
        }
        5 => format!("{}{}", l, rng.pick(HOSTILE)), // garbage appended
        6 => l[..z.min(l.len())].to_string(),         // record cut short
        _ => format!("{}{}{}", &l[..z], rng.pick(&["|x", "|1", "|1:x", "|B", ":", ",", "|9999999:1", "|1:1|B|x:2"]), &l[z..]),
    })
}

/// L1 variant for "a line failing after partial progress": first a benign change of an EARLIER numeric field (so that
/// whatever the parser writes before failing differs from what an earlier, valid line wrote), then a breaking edit of a
/// LATER field.
pub fn corrupt_record_partial(rng: &mut Rng, l: &str) -> Option<String> {
    let seps = sep_positions(l);
    if seps.len() < 2 {
        return None;
    }
    // field k spans (start, end); field 0 starts at 0 or after the key's ':'
    let mut bounds: Vec<(usize, usize)> = Vec::new();
    let mut st = 0;
    for &p in &seps {
        bounds.push((st, p));
        st = p + 1;
    }
    bounds.push((st, l.len()));
    let numeric: Vec<usize> = (0..bounds.len() - 1).filter(|&k| {
        let f = l[bounds[k].0..bounds[k].1].trim();
        !f.is_empty() && f.parse::<f64>().is_ok()
    }).collect();
    if numeric.is_empty() {
        return None;
    }
    let k = *rng.pick(&numeric);
    let later: Vec<usize> = (k + 1..bounds.len()).collect();
    let j = *rng.pick(&later);
    let old = l[bounds[k].0..bounds[k].1].trim();
    let newv = match old.parse::<i64>() {
        Ok(v) => (if v >= 200 { v - 1 - rng.range(0, 60) } else { v + 1 + rng.range(0, 50) }).to_string(),
        Err(_) => format!("{}", old.parse::<f64>().unwrap_or(1.0) + 0.5),
    };
    let bad = *rng.pick(&["256", "x", "", "NaN", "2147483648", "-1e39", "1e", "9001", "131073", "-", "1:x", "1\u{0}2", "\u{0}", "7\u{0}"]);
    let mut out = String::new();
    for (i, (a, z)) in bounds.iter().enumerate() {
        if i > 0 {
            out.push_str(&l[bounds[i - 1].1..*a]);
        }
        if i == k {
            out.push_str(&newv);
        } else if i == j {
            out.push_str(bad);
        } else {
            out.push_str(&l[*a..*z]);
        }
    }
    Some(out)
}

/// Characters that break assumptions: case mapping changes the UTF-8 length (U+0130, U+1E9E, U+212A, U+212B, U+0149),
/// combining / zero-width / bidi marks, Unicode line separators, non-characters, the last scalar.
pub const SPECIAL_CHARS: &[&str] = &["\u{130}", "\u{1E9E}", "\u{212A}", "\u{212B}", "\u{149}", "\u{DF}", "\u{FB03}", "\u{301}", "\u{200B}", "\u{200D}", "\u{202E}", "\u{2028}", "\u{2029}", "\u{85}", "\u{B}", "\u{C}", "\u{0}", "\u{FFFF}", "\u{FFFE}", "\u{10FFFF}", "\u{FEFF}", "\u{3A3}", "\u{1F1E6}\u{1F1FA}", "\u{1A}", "\u{7F}", "\u{1B}", "\u{FF1A}", "\u{FF0C}", "\u{A0}", "\u{2003}"];

/// L7: replace one ASCII separator / digit / sign by its full-width or typographic look-alike (U+FF1A for ':', U+FF0C for
/// ',', U+FF5C for '|', U+FF3B/U+FF3D for brackets, U+FF0F for '/', U+2212 for '-', U+FF10.. for digits).
pub fn confuse_char(rng: &mut Rng, text: &str) -> String {
    let pos: Vec<(usize, char)> = text.char_indices().filter(|(_, c)| matches!(c, ':' | ',' | '|' | '[' | ']' | '/' | '-' | '.' | '0'..='9')).collect();
    if pos.is_empty() {
        return text.to_string();
    }
    let (i, c) = *rng.pick(&pos);
    let r = match c {
        ':' => '\u{FF1A}',
        ',' => '\u{FF0C}',
        '|' => '\u{FF5C}',
        '[' => '\u{FF3B}',
        ']' => '\u{FF3D}',
        '/' => '\u{FF0F}',
        '-' => '\u{2212}',
        '.' => '\u{FF0E}',
        d => char::from_u32(0xFF10 + (d as u32 - '0' as u32)).unwrap_or(d),
    };
    let mut out = String::with_capacity(text.len() + 3);
    out.push_str(&text[..i]);
    out.push(r);
    out.push_str(&text[i + c.len_utf8()..]);
    out
}

/// L6: insert a special character into a random line, biased to the very start of the line.
pub fn insert_special_char(rng: &mut Rng, text: &str) -> String {
    let mut lines: Vec<String> = text.split('\n').map(str::to_string).collect();
    if lines.is_empty() {
        return text.to_string();
    }
    let i = if rng.chance(1, 3) { 0 } else { rng.below(lines.len()) };
    let l = &mut lines[i];
    let pos: Vec<usize> = l.char_indices().map(|(k, _)| k).chain(std::iter::once(l.len())).collect();
    let at = if rng.chance(1, 2) { 0 } else { *rng.pick(&pos) };
    l.insert_str(at, *rng.pick(SPECIAL_CHARS));
    lines.join("\n")
}

pub const NOISE_LINES: &[&str] = &["", "   ", "\t", "// comment", "  // indented comment", "[Unknown]", " [General]", "[General] // x", "[TimingPoints] // foo", "[HitObjects]// x", "[Events] //", "[Colours]  // c", "[Metadata] // m", "[]", "[HitObjects", "garbage", "a:b:c", "\u{3000}", "x\ry"];

// ------------------------------------------------------------------------------------------ structured generator

const SECTIONS: &[&str] = &["General", "Editor", "Metadata", "Difficulty", "Events", "TimingPoints", "Colours", "HitObjects"];

fn num(rng: &mut Rng, lo: i64, hi: i64) -> String {
    match rng.below(24) {
        0 => rng.pick(HOSTILE).to_string(),
        1 => format!("{}.{}", rng.range(lo, hi), rng.below(1000)),
        2 => format!(" {} ", rng.range(lo, hi)),
        _ => rng.range(lo, hi).to_string(),
    }
}
fn fnum(rng: &mut Rng, lo: f64, hi: f64) -> String {
    match rng.below(24) {
        0 => rng.pick(HOSTILE).to_string(),
        1 => format!("{}", rng.range(lo as i64, hi as i64)),
        2 => format!("{:e}", lo + (hi - lo) * rng.unit()),
        _ => format!("{}", lo + (hi - lo) * rng.unit()),
    }
}

const TEXTS: &[&str] = &["Renatus", "Re:Zero", "a // b", "上海紅茶館 ～ Chinese Tea", "ＴＶサイズ", "Ünïcödé", "emoji 😀 tail", "ਊ ਐ", "Ċ Ċ", " padded ", "x,y", "[General]", "osu file format v9", "\"quoted\"", "tab\there", "\u{feff}bom inside", "", "日本語\u{3000}全角",
    // one character per UTF-8 lead-byte class (C2, DF, E0, E1-EC, ED, EE-EF, F0, F1-F3, F4) and the first / last scalar of each length
    "\u{80}\u{7FF}", "\u{800}\u{FFF}", "\u{1000}\u{CFFF}", "\u{D000}\u{D7FF}", "\u{E000}\u{FFFD}", "\u{10000}\u{3FFFF}", "\u{40000}\u{FFFFF}", "\u{100000}\u{10FFFF}", "a\u{10FFFE}b\u{100000}c"];

pub fn gen_path(rng: &mut Rng) -> String {
    let mut s = String::new();
    let segs = 1 + rng.below(3);
    // one path in six carries malformed point tokens (empty, one coordinate missing, surplus colon, not a number, out
    // of range): the line is rejected part-way through a segment
    let faulty = rng.chance(1, 6);
    for si in 0..segs {
        if si > 0 {
            s.push('|');
        }
        s.push_str(*rng.pick(&["B", "L", "P", "C", "B", "B3", "L", "P", "B0", "Q", "b"]));
        let n = match rng.below(10) {
            0 => 0,
            1 => 1,
            2..=5 => 2,
            6 | 7 => 3,
            _ => 2 + rng.below(8),
        };
        let mut last = (rng.range(0, 512), rng.range(0, 384));
        for _ in 0..n {
            let p = match rng.below(8) {
                0 => last, // duplicate point
                1 => (last.0 + rng.range(-3, 3), last.1),
                _ => (rng.range(-50, 600), rng.range(-50, 450)),
            };
            last = p;
            if faulty && rng.chance(1, 4) {
                s.push('|');
                s.push_str(*rng.pick(&["", "x", "1:", ":2", "1:2:3", "1:x", "NaN:1", "1e9:1", "2147483648:0", "1;2", " 3:4", "-:-"]));
                continue;
            }
            s.push_str(&format!("|{}:{}", p.0, p.1));
        }
    }
    s
}

/// Slider lines with hostile geometry: near-collinear three-point arcs at large coordinates (in f32 the collinearity
/// pre-check passes while the circumcircle denominator rounds to zero, giving NaN/inf lengths), huge arcs that need
/// more sub-points than the cap, coordinates at the +-131072 limit, piles of repeated points, absent / zero / huge length.
pub fn gen_hostile_slider(rng: &mut Rng, time: i64) -> String {
    let scale = *rng.pick(&[1000i64, 10_000, 100_000, 130_000]);
    let (ax, ay) = (rng.range(0, scale), rng.range(0, scale));
    let (dx, dy) = (rng.range(-200, 200), rng.range(-200, 200));
    let k1 = rng.range(1, 5);
    let k2 = k1 + rng.range(1, 8);
    let (bx, by) = (ax + dx * k1, ay + dy * k1);
    let (cx, cy) = (ax + dx * k2 + rng.range(-1, 1), ay + dy * k2 + rng.range(-1, 1));
    let path = match rng.below(9) {
        8 => {
            // a long zigzag across the whole coordinate range (path length ~1e7..1e8), usually without a declared length
            let n = 40 + rng.below(360);
            let e = *rng.pick(&[131_072i64, 131_072, 100_000, 65_536]);
            let pts: Vec<String> = (0..n).map(|i| if i % 2 == 0 { format!("{e}:{e}") } else { format!("-{e}:-{e}") }).collect();
            format!("{}|{}", rng.pick(&["L", "L", "B", "C"]), pts.join("|"))
        }
        0 | 1 => format!("P|{bx}:{by}|{cx}:{cy}"),
        2 | 3 | 4 => format!("{}|{}:{}|P|{ax}:{ay}|{bx}:{by}|{cx}:{cy}", rng.pick(&["L", "B", "C"]), rng.range(0, 50), rng.range(0, 50)),
        5 => format!("P|{}:{}|{}:{}", rng.range(20_000, 131_072), rng.range(20_000, 131_072), rng.range(-131_072, 0), rng.range(20_000, 131_072)), // huge arc
        6 => format!("{}|131072:131072|-131072:-131072|131072:-131072|{}:{}", rng.pick(&["B", "C", "L"]), ax, ay),
        _ => {
            let p = format!("|{ax}:{ay}");
            format!("{}{}", rng.pick(&["B", "C", "L", "P"]), p.repeat(2 + rng.below(6)))
        }
    };
    let len = *rng.pick(&["", "", ",0", ",100000", ",131072", ",1", ",0.0001", ",-5", ",1e-14", ",1e-300", ",5e-324"]);
    let time = if rng.chance(1, 8) { *rng.pick(&[2_147_483_000i64, 1_000_000_000, 2_000_000_000]) + time % 1000 } else { time };
    // (a zigzag with many repeats: bounded work only as long as the walked length per span is capped)
    let slides = if path.len() > 400 && rng.chance(1, 2) { *rng.pick(&[50i64, 200, 120]) } else { rng.range(1, 3) };
    let (x, y) = if rng.chance(1, 2) { (0, 0) } else { (rng.range(-131_072, 131_072), rng.range(-131_072, 131_072)) };
    if len.is_empty() {
        format!("{x},{y},{time},2,0,{path},{slides}")
    } else {
        format!("{x},{y},{time},2,0,{path},{slides}{len}")
    }
}

pub fn gen_hit_object(rng: &mut Rng, time: i64, mode: i64) -> String {
    if rng.chance(1, 14) {
        return gen_hostile_slider(rng, time);
    }
    let x = num(rng, 0, 512);
    let y = num(rng, 0, 384);
    let t = if rng.chance(1, 30) { rng.pick(HOSTILE).to_string() } else { time.to_string() };
    let sound = if rng.chance(1, 20) { rng.range(0, 255) } else { *rng.pick(&[0, 0, 2, 4, 8, 6, 14, 1]) };
    let combo = *rng.pick(&[0, 0, 4, 4 | 16, 4 | 32 | 64, 16]);
    let extras = match rng.below(8) {
        0 => String::new(),
        1 => ",0:0:0:0:".to_string(),
        2 => ",1:2:3:50:hit.wav".to_string(),
        3 => ",2:0:0:100:".to_string(),
        4 => ",3:1".to_string(),
        5 => format!(",{}:{}:{}:{}:{}", rng.range(-1, 5), rng.range(-1, 5), rng.range(-1, 300), rng.range(-5, 150), rng.pick(&["", "a.wav", "x:y"])),
        6 => ",0:0:0".to_string(),
        _ => ",0:0:0:0:".to_string(),
    };
    let kind = if mode == 3 && rng.chance(1, 3) { 3 } else { rng.below(10) };
    match kind {
        0..=3 => format!("{x},{y},{t},{},{sound}{extras}", 1 | combo),
        4..=7 => {
            let path = gen_path(rng);
            let slides = if rng.chance(1, 25) { rng.pick(&["9000", "9001", "0", "-1", "200"]).to_string() } else { (1 + rng.below(4)).to_string() };
            // bounded work: a slider with thousands of spans keeps a playable length (9000 spans x 1e5 px of ticks is
            // seconds of legitimate work per encode and tells nothing new)
            let many_spans = slides.parse::<i64>().map_or(true, |n| n > 50);
            let len = if !many_spans && rng.chance(1, 10) { rng.pick(&["0", "-10", "", "1e5", "131072", "131073", "0.0001", "1e-14", "1e-300", "5e-324", "1e-7"]).to_string() } else { format!("{}", 10.0 + 590.0 * rng.unit()) };
            let nodes = match rng.below(4) {
                0 => String::new(),
                1 => ",2|0|4".to_string(),
                2 => ",2|0,0:0|1:2".to_string(),
                _ => format!(",{}|{},{}:{}|{}:{}{extras}", rng.below(16), rng.below(16), rng.below(4), rng.below(4), rng.below(4), rng.below(4)),
            };
            format!("{x},{y},{t},{},{sound},{path},{slides},{len}{nodes}", 2 | combo)
        }
        8 => format!("{x},{y},{t},{},{sound},{}{extras}", 8 | combo, time + rng.range(-100, 3000)),
        _ => format!("{x},{y},{t},{},{sound},{}{}", 128, time + rng.range(-100, 3000), if rng.chance(1, 2) { ":0:0:0:0:" } else { "" }),
    }
}

pub fn gen_timing_line(rng: &mut Rng, time: f64) -> String {
    let t = if rng.chance(1, 20) { rng.pick(HOSTILE).to_string() } else if time.fract() == 0.0 { format!("{}", time as i64) } else { format!("{time}") };
    let bl = match rng.below(10) {
        0..=3 => format!("{}", 200.0 + 600.0 * rng.unit()),
        4..=6 => format!("-{}", *rng.pick(&[100.0, 50.0, 200.0, 133.33, 1000.0, 5.0])),
        7 => rng.pick(&["NaN", "0", "-0.5", "1e9", "3000000000", "5", "70000", "inf", "-0.0001", "-1e-7", "-1e-300", "-1e300", "-1e9", "-2147483647", "1e-300", "-5e-324"]).to_string(),
        _ => "500".to_string(),
    };
    let nf = if rng.chance(1, 4) { 2 + rng.below(7) } else { 8 };
    let uninh = if bl.starts_with('-') || rng.chance(1, 6) { "0" } else { "1" };
    let f = [t, bl, rng.pick(&["4", "3", "0", "7"]).to_string(), rng.pick(&["0", "1", "2", "3", "4"]).to_string(), rng.pick(&["0", "1", "2"]).to_string(), rng.pick(&["100", "60", "0", "-5", "150"]).to_string(), uninh.to_string(), rng.pick(&["0", "1", "8", "9"]).to_string()];
    f[..nf].join(",")
}

/// Grammar-generated `.osu` text: every section, four modes, versions 3…128, all object kinds, multi-segment
/// paths of every type letter, same-time timing groups, accepted-but-hostile numerics, non-ASCII metadata.
pub fn gen_osu(rng: &mut Rng) -> String {
    let mut o = String::new();
    let nl = if rng.chance(1, 4) { "\r\n" } else { "\n" };
    let mode = rng.range(0, 3);
    match rng.below(14) {
        0 => {}
        1 => o.push_str(&format!("osu file format v{}{nl}", rng.pick(HOSTILE))),
        2 => o.push_str(&format!("{nl}{nl}osu file format v{}{nl}", rng.range(3, 14))),
        3 => o.push_str(&format!("osu file format v128{nl}")),
        4 => o.push_str(&format!("{nl}// exported by a tool{nl}osu file format v{}{nl}", rng.range(3, 13))),
        5 => o.push_str(&format!("//{nl}{nl}osu file format v{}{nl}", rng.range(3, 13))),
        6 => o.push_str(&format!("{nl}{nl}{}osu file format v{}{nl}", rng.pick(&["  ", "\t", " \t ", "\u{3000}"]), rng.range(3, 13))),
        7 => o.push_str(&format!("{nl} {nl}\t{nl}")),
        _ => o.push_str(&format!("osu file format v{}{nl}", rng.range(3, 14))),
    }
    let mut order: Vec<&str> = SECTIONS.to_vec();
    if rng.chance(1, 5) {
        rng.shuffle(&mut order);
    }
    if rng.chance(1, 6) {
        let extra = *rng.pick(SECTIONS);
        order.push(extra);
    }
    if rng.chance(1, 5) {
        // the three rarely used sections, anywhere in the order
        let extra = *rng.pick(&["Variables", "CatchTheBeat", "Mania"]);
        let at = rng.below(order.len() + 1);
        order.insert(at, extra);
    }
    let mut time = rng.range(-500, 2000);
    for sec in order {
        if rng.chance(1, 10) {
            continue;
        }
        if rng.chance(1, 3) {
            o.push_str(nl);
        }
        o.push_str(&format!("[{sec}]{nl}"));
        match sec {
            "General" => {
                o.push_str(&format!("AudioFilename: {}{nl}", rng.pick(&["audio.mp3", "a b.ogg", "\"q.mp3\"", ""])));
                if rng.chance(1, 2) {
                    o.push_str(&format!("AudioLeadIn: {}{nl}PreviewTime: {}{nl}", num(rng, 0, 3000), num(rng, -1, 100000)));
                }
                if rng.chance(1, 2) {
                    o.push_str(&format!("Countdown: {}{nl}SampleSet: {}{nl}SampleVolume: {}{nl}", num(rng, 0, 4), rng.pick(&["Normal", "Soft", "Drum", "None", "soft", "X"]), num(rng, 0, 100)));
                }
                o.push_str(&format!("StackLeniency: {}{nl}Mode: {mode}{nl}", fnum(rng, 0.0, 1.0)));
                if rng.chance(1, 2) {
                    o.push_str(&format!("LetterboxInBreaks: {}{nl}SpecialStyle: {}{nl}WidescreenStoryboard: {}{nl}EpilepsyWarning: {}{nl}SamplesMatchPlaybackRate: {}{nl}CountdownOffset: {}{nl}", rng.below(3), rng.below(2), rng.below(2), rng.below(2), rng.below(2), num(rng, 0, 3)));
                }
            }
            "Editor" => {
                o.push_str(&format!("Bookmarks: {}{nl}DistanceSpacing: {}{nl}BeatDivisor: {}{nl}GridSize: {}{nl}TimelineZoom: {}{nl}", (0..rng.below(5)).map(|i| (i * 1000 + rng.below(900)).to_string()).collect::<Vec<_>>().join(","), fnum(rng, 0.1, 4.0), num(rng, 1, 16), num(rng, 1, 32), fnum(rng, 0.1, 8.0)));
            }
            "Metadata" => {
                for k in ["Title", "TitleUnicode", "Artist", "ArtistUnicode", "Creator", "Version", "Source", "Tags"] {
                    if rng.chance(3, 4) {
                        o.push_str(&format!("{k}:{}{nl}", rng.pick(TEXTS)));
                    }
                }
                o.push_str(&format!("BeatmapID:{}{nl}BeatmapSetID:{}{nl}", num(rng, -1, 5_000_000), num(rng, -1, 2_000_000)));
            }
            "Difficulty" => {
                let mut keys = vec!["HPDrainRate", "CircleSize", "OverallDifficulty", "ApproachRate", "SliderMultiplier", "SliderTickRate"];
                if rng.chance(1, 3) {
                    rng.shuffle(&mut keys);
                }
                for k in keys {
                    if rng.chance(5, 6) {
                        o.push_str(&format!("{k}:{}{nl}", fnum(rng, 0.0, 10.0)));
                    }
                }
            }
            "Events" => {
                if rng.chance(1, 25) {
                    // break periods en masse: overlapping chains, nested, duplicated, in no particular order
                    let n = 21 + rng.below(90);
                    let mut v: Vec<(i64, i64)> = (0..n).map(|_| { let s0 = rng.range(0, 20_000); (s0, s0 + rng.range(0, 4000)) }).collect();
                    if rng.chance(1, 2) {
                        v.sort_unstable();
                        v.reverse();
                    }
                    for (a, b) in v {
                        o.push_str(&format!("{},{a},{b}{nl}", rng.pick(&["2", "Break"])));
                    }
                }
                for _ in 0..rng.below(6) {
                    let l = match rng.below(12) {
                        0 => format!("0,0,\"{}\",0,0", rng.pick(&["bg.jpg", "b g.png", "x.avi"])),
                        1 => format!("Video,{},\"{}\"", num(rng, -500, 500), rng.pick(&["v.mp4", "V.AVI", "img.JPG", "i.png"])),
                        2 => format!("2,{},{}", time + rng.range(0, 5000), time + rng.range(0, 9000)),
                        3 => format!("Break,{},{}", num(rng, 0, 9000), num(rng, 0, 9000)),
                        4 => "Sprite,Background,Centre,\"sb.png\",320,240".to_string(),
                        5 => " F,0,100,200,0,1".to_string(),
                        6 => "Sample,1000,0,\"s.wav\",80".to_string(),
                        7 => format!("{},0", rng.pick(HOSTILE)),
                        8 => rng.pick(&["0,0,\"\",0,0", "0,0,", "0,0", "Video,0,\"videos//intro//a.mp4\"", "0,0,\"a//b//c//d.png\",0,0", "Video,0,\"bg.jpg\"", "1,0,\"img.png\"", "Video,0,\"\"", "Sample,0,0,\"x//y//z.wav\",50", "0,0,\"//\"", "Background,0,\"b.png\" // c // d"]).to_string(),
                        9 => format!("0,0,\"{}\",0,0", rng.pick(&["$bg", "$a", "$b", "$e", "$var", "$x"])),
                        10 => format!("Sprite,Background,Centre,\"{}\",320,240", rng.pick(&["$bg", "$a", "$section"])),
                        _ => "//Storyboard Layer 0 (Background)".to_string(),
                    };
                    o.push_str(&l);
                    o.push_str(nl);
                }
            }
            "TimingPoints" => {
                let mut t = time as f64;
                let many = if rng.chance(1, 25) { 25 + rng.below(120) } else { 0 };
                for _ in 0..1 + rng.below(8) + many {
                    o.push_str(&gen_timing_line(rng, t));
                    o.push_str(nl);
                    match rng.below(5) {
                        0 => {}                                    // same-time group
                        1 => t -= 100.0 * rng.unit(),              // out of order
                        2 => t += 0.5,
                        _ => t += (rng.below(4000) + 1) as f64,
                    }
                }
            }
            "Variables" | "CatchTheBeat" | "Mania" => {
                for _ in 0..rng.below(4) {
                    o.push_str(*rng.pick(&["$var=1", "$x=320,240", "Keys: 4", "Foo: bar", "1,2,3", "garbage", "[Unknown]", "$bg=backgrounds/$bg", "$a=$b.png", "$b=$a.jpg", "$section=[HitObjects]", "x[General]", "$e=0,0,\"$e\",0,0", "$=", "$$=$$"]));
                    o.push_str(nl);
                }
            }
            "Colours" => {
                for i in 1..=rng.below(5) {
                    o.push_str(&format!("Combo{i} : {},{},{}{}{nl}", num(rng, 0, 255), num(rng, 0, 255), num(rng, 0, 255), if rng.chance(1, 4) { ",128" } else { "" }));
                }
                if rng.chance(1, 2) {
                    o.push_str(&format!("SliderBorder : 255,255,255{nl}SliderTrackOverride : 1,2,3{nl}"));
                }
            }
            _ => {
                let many = if rng.chance(1, 30) { 25 + rng.below(100) } else { 0 };
                for _ in 0..rng.below(12) + many {
                    o.push_str(&gen_hit_object(rng, time, mode));
                    o.push_str(nl);
                    time += match rng.below(6) {
                        0 => 0,
                        1 => -rng.range(0, 300),
                        _ => rng.range(1, 1500),
                    };
                }
            }
        }
        if rng.chance(1, 8) {
            o.push_str(*rng.pick(NOISE_LINES));
            o.push_str(nl);
        }
    }
    if rng.chance(1, 4) {
        // no final newline
        while o.ends_with('\n') || o.ends_with('\r') {
            o.pop();
        }
    }
    o
}

/// A hand-written map that sets every optional field the encoder can write.
pub fn synthetic_full(mode: i64) -> String {
    format!(
        "osu file format v14\n\n[General]\nAudioFilename: audio file.mp3\nAudioLeadIn: 500\nPreviewTime: 12345\nCountdown: 2\nSampleSet: Soft\nSampleVolume: 70\nStackLeniency: 0.4\nMode: {mode}\nLetterboxInBreaks: 1\nSpecialStyle: 1\nWidescreenStoryboard: 1\nEpilepsyWarning: 1\nSamplesMatchPlaybackRate: 1\nCountdownOffset: 2\n\n[Editor]\nBookmarks: 1000,2000,3000\nDistanceSpacing: 1.5\nBeatDivisor: 8\nGridSize: 16\nTimelineZoom: 2.5\n\n[Metadata]\nTitle:Synthetic: full // featured\nTitleUnicode:\u{5408}\u{6210}\nArtist:rosu-sim\nArtistUnicode:\u{30B7}\u{30DF}\nCreator:verif\nVersion:Everything\nSource:none\nTags:a b c\nBeatmapID:123456\nBeatmapSetID:654321\n\n[Difficulty]\nHPDrainRate:6.5\nCircleSize:4.2\nOverallDifficulty:8.3\nApproachRate:9.1\nSliderMultiplier:1.7\nSliderTickRate:2\n\n[Events]\n0,0,\"bg image.jpg\",0,0\nVideo,-120,\"intro.mp4\"\n2,5000,7000\n2,20000,23000\n\n[TimingPoints]\n0,400,4,2,1,70,1,0\n1000,-50,4,2,1,70,0,1\n2000,-133.33,4,3,2,40,0,0\n4000,300,3,1,0,100,1,8\n4000,-80,3,1,0,100,0,1\n9000,NaN,4,1,0,100,0,0\n\n[Colours]\nCombo1 : 255,0,0\nCombo2 : 0,255,0\nCombo3 : 0,0,255\nSliderBorder : 200,200,200\nSliderTrackOverride : 10,20,30\n\n[HitObjects]\n64,64,500,5,2,1:2:3:60:custom.wav\n128,128,1000,2,4,B|200:200|300:100|300:100|L|350:50,2,220.5,2|4|8,1:2|0:0|3:1,2:1:4:50:\n256,192,3000,12,8,4500,0:0:0:0:\n100,300,9000,6,0,P|150:350|200:300,1,110\n300,100,10000,2,0,C|320:120|340:90|360:140,3,150,0|2|0|2,0:0|1:1|2:2|3:3,0:0:0:0:\n400,50,12000,128,2,12800:1:0:0:0:\n50,50,14000,1,0\n"
    )
}

pub fn synthetic_tricky() -> String {
    "osu file format v14\n\n[General]\nAudioFilename: \u{0A0A}\u{4E0A}.mp3\nMode: 0\n\n[Metadata]\nTitle:\u{0A05}\u{0A0A} \u{4E0A}\u{010A}\nTitleUnicode:\u{0D0A}\u{0A0D}\u{0D00}\nArtist:\u{1F600}\u{10FFFF}\u{100000}\nCreator:\u{7FF}\u{800}\u{D7FF}\u{E000}\nVersion:\u{0A00}x\u{000A}".replace('\u{000A}', "\n").to_string()
        + "Tags:\u{0100}\u{0A00} \u{2028}\n\n[Events]\n0,0,\"\u{4E0A}\u{0A0A}.png\",0,0\n\n[TimingPoints]\n0,500,4,1,0,100,1,0\n1000,-50,4,2,0,60,0,1\n\n[HitObjects]\n64,64,500,5,2,1:2:3:60:\u{0A0A}.wav\n128,128,1000,2,4,B|200:200|300:100,2,220.5,2|4|8,1:2|0:0|3:1,2:1:4:50:\n"
}

/// A hand-written file made of legal oddities: the three rarely used sections, brackets and comment markers in the middle
/// of lines, repeated and out-of-order sections, indented records, blank and whitespace-only lines, CRLF and LF mixed.
pub fn synthetic_odd() -> String {
    "\r\n  \n// generated\nosu file format v9\r\n\n[Variables]\n$section=[HitObjects]\n$bg=bg.png\nx[General]\n$c=a//b\n\n[General]\nMode: 3 // mania\n AudioFilename: a[1].mp3\n\n[Mania]\nKeys: 7\n[Unknown]\nstill mania [Events]\n\n[CatchTheBeat]\nfoo=[Metadata]\n\n[Metadata]\nTitle:[HitObjects]\nArtist:// not a comment\nTags:a [b] c//d\n\n[HitObjects]\n64,192,1000,1,0,0:0:0:0:\n 192,192,1500,128,0,1800:0:0:0:0:\n[Events]\n0,0,\"b[g].png\",0,0\n[HitObjects]\n320,192,2000,5,0\n\n[TimingPoints]\n0,500,4,1,0,100,1,0\n1000,-100,4,1,0,100,0,0 // [Colours]\n\n[Colours]\nCombo1 : 1,2,3\n[Variables]\n$late=[TimingPoints]\n5000,-50,4,1,0,100,0,0\n".to_string()
}

/// Rewrite (or insert) the `Mode:` line.
pub fn set_mode(text: &str, mode: i64) -> String {
    let mut out = String::with_capacity(text.len() + 16);
    let mut done = false;
    for l in text.split_inclusive('\n') {
        if !done && l.trim_start().starts_with("Mode") && l.contains(':') {
            let term = if l.ends_with("\r\n") { "\r\n" } else if l.ends_with('\n') { "\n" } else { "" };
            out.push_str(&format!("Mode: {mode}{term}"));
            done = true;
        } else if !done && l.trim_end() == "[General]" {
            out.push_str(l);
            if !l.ends_with('\n') {
                out.push('\n');
            }
            out.push_str(&format!("Mode: {mode}\n"));
            done = true;
        } else {
            out.push_str(l);
        }
    }
    out
}

/// Record-level mutation of a text (L1–L5). Returns names of the faults applied.
pub fn record_faults(rng: &mut Rng, text: &str, n: usize) -> (String, Vec<&'static str>) {
    let mut lines: Vec<String> = text.split('\n').map(str::to_string).collect();
    let mut applied = Vec::new();
    for _ in 0..n {
        if lines.is_empty() {
            break;
        }
        let i = rng.below(lines.len());
        match rng.below(10) {
            0..=4 => {
                let l = lines[i].trim_end_matches('\r').to_string();
                if let Some(c) = corrupt_record(rng, &l) {
                    applied.push("L1-corrupt");
                    if rng.chance(1, 2) {
                        lines.insert(i, c);
                    } else {
                        lines[i] = c;
                    }
                }
            }
            5 => {
                lines.remove(i);
                applied.push("L2-drop");
            }
            6 => {
                let l = lines[i].clone();
                let j = rng.below(lines.len() + 1);
                lines.insert(j, l);
                applied.push("L3-duplicate");
            }
            7 => {
                if i + 1 < lines.len() {
                    lines.swap(i, i + 1);
                    applied.push("L4-reorder");
                }
            }
            8 => {
                lines.insert(i, rng.pick(NOISE_LINES).to_string());
                applied.push("L5-noise");
            }
            _ if rng.chance(1, 3) => {
                // L8: white space of the non-ASCII kind (or VT / FF / NEL) at the very end or the very start of a line —
                // headers and records alike
                let ws = *rng.pick(&["\u{A0}", "\u{3000}", "\u{2028}", "\u{2003}", "\u{B}", "\u{C}", "\u{85}", "\u{1680}", "\u{2029}", "\u{202F}", "\u{FEFF}", "\u{200B}"]);
                let cr = lines[i].ends_with('\r');
                let body = lines[i].trim_end_matches('\r').to_string();
                lines[i] = if rng.chance(3, 4) { format!("{body}{ws}") } else { format!("{ws}{body}") };
                if cr {
                    lines[i].push('\r');
                }
                applied.push("L8-edge-whitespace");
            }
            _ => {
                if rng.chance(1, 2) {
                    let t = insert_special_char(rng, &lines.join("\n"));
                    lines = t.split('\n').map(str::to_string).collect();
                    applied.push("L6-special-char");
                } else {
                    // confusable inside one line (biased to lines with a key)
                    let k = rng.below(lines.len());
                    lines[k] = confuse_char(rng, &lines[k]);
                    applied.push("L7-confusable-char");
                }
            }
        }
    }
    (lines.join("\n"), applied)
}
