//! rosu-sim — deterministic simulation with fault injection for rosu-map. See /verif/DESIGN.md.
//!
//!   rosu-sim check <ID> <quick|thorough>     supervised run (prints VIOLATION / KNOWN-FINDING lines, writes evidence)
//!   rosu-sim replay <file>                   re-execute a replay file exactly (exit 1 + "CLASS <class>" if it violates)
//!   rosu-sim determinism [ID…]               same seeds twice, separate processes, 1 and 16 workers: digests must agree
//!   rosu-sim plan <ID> <tier> <idx>          print the plan a run would execute
//! exit codes: 0 held, 1 violation, 2 harness error (never a verdict)

mod corpus;
mod engine;
mod json;
mod models;
mod plan;
mod probe;
mod props;
mod rng;
mod shrink;
mod simio;
mod transport;
#[cfg(feature = "tracing")]
mod tracesub;

use engine::{Batch, RunResult, Scenario, Stats, Tier, Violation};
use json::J;
use std::process::{Command, ExitCode};
use std::sync::Arc;

pub const DEFAULT_SEED: u64 = 20_260_917;

fn seed_from_env() -> u64 {
    match std::env::var("VERIF_SEED") {
        Ok(s) => {
            let s = s.trim();
            if let Ok(v) = s.parse::<u64>() {
                v
            } else if let Ok(v) = s.parse::<i64>() {
                v as u64
            } else {
                // any other text: hash it, still deterministic
                rng::hash_str(s)
            }
        }
        Err(_) => DEFAULT_SEED,
    }
}

fn threads_from_env() -> usize {
    std::env::var("VERIF_THREADS").ok().and_then(|s| s.parse().ok()).unwrap_or_else(|| std::thread::available_parallelism().map_or(8, |n| n.get()).min(16))
}

fn scenario(id: &str) -> Result<Box<dyn Scenario>, String> {
    let corpus = Arc::new(corpus::Corpus::load()?);
    props::make(id, corpus).ok_or_else(|| format!("unknown or unclaimed property {id}"))
}

fn main() -> ExitCode {
    let args: Vec<String> = std::env::args().collect();
    let r = match args.get(1).map(String::as_str) {
        Some("check") => cmd_check(&args[2..]),
        Some("child") => cmd_child(&args[2..]),
        Some("replay") => cmd_replay(&args[2..]),
        Some("runone") => cmd_runone(&args[2..]),
        Some("determinism") => cmd_determinism(&args[2..]),
        Some("digest") => cmd_digest(&args[2..]),
        Some("plan") => cmd_plan(&args[2..]),
        Some("merge-evidence") => cmd_merge_evidence(&args[2..]),
        Some("miri-pack") => cmd_miri_pack(&args[2..]),
        Some("miri-exec") => cmd_miri_exec(&args[2..]),
        _ => Err("usage: rosu-sim check <ID> <quick|thorough> | replay <file> | determinism [ID…] | plan <ID> <tier> <idx>".into()),
    };
    transport::cleanup_tmp();
    match r {
        Ok(code) => ExitCode::from(code),
        Err(e) => {
            eprintln!("HARNESS-ERROR: {e}");
            ExitCode::from(2)
        }
    }
}

// ------------------------------------------------------------------------------------------------ supervisor

/// Supervisor: runs the actual check in a child process so that a crash of the system under test (SIGSEGV from
/// broken `unsafe`, abort from a runaway allocation or stack overflow) is observed instead of killing the check.
fn cmd_check(a: &[String]) -> Result<u8, String> {
    let id = a.first().ok_or("check: missing property id")?.clone();
    let tier = a.get(1).map(String::as_str).unwrap_or("quick").to_string();
    Tier::parse(&tier).ok_or("tier must be quick or thorough")?;
    let exe = std::env::current_exe().map_err(|e| e.to_string())?;
    let seed = seed_from_env();
    println!("VERIF_SEED={seed} property={id} tier={tier}");
    // hang-suspect files of earlier runs must not be mistaken for this run's (the confirmation step below looks for one)
    {
        let path = engine::replay_path(&id, seed, 0, "hang");
        if let Some(dir) = std::path::Path::new(&path).parent() {
            if let Ok(rd) = std::fs::read_dir(dir) {
                for e in rd.filter_map(|e| e.ok()) {
                    let n = e.file_name().to_string_lossy().into_owned();
                    if n.starts_with(&format!("{id}-{seed}-")) && n.ends_with("-hang.json") {
                        let _ = std::fs::remove_file(e.path());
                    }
                }
            }
        }
    }
    let status = Command::new(&exe).args(["child", &id, &tier]).status().map_err(|e| format!("spawn: {e}"))?;
    match status.code() {
        Some(c @ (0 | 1 | 2)) => Ok(c as u8),
        Some(3) => {
            // the watchdog saw a run exceed the hang limit and wrote its plan; confirm by re-running that plan alone
            let path = engine::replay_path(&id, seed, 0, "hang");
            let dir = std::path::Path::new(&path).parent().unwrap().to_path_buf();
            let mut found = None;
            if let Ok(rd) = std::fs::read_dir(&dir) {
                let mut v: Vec<_> = rd.filter_map(|e| e.ok().map(|e| e.path())).filter(|p| p.file_name().map_or(false, |n| n.to_string_lossy().starts_with(&format!("{id}-{seed}-")) && n.to_string_lossy().ends_with("-hang.json"))).collect();
                v.sort();
                found = v.pop();
            }
            let Some(f) = found else { return Err("watchdog fired but no hang replay file was found".into()) };
            let f = f.to_string_lossy().into_owned();
            let limit = engine::hang_limit_ms();
            let mut ch = Command::new(&exe).args(["replay", &f]).spawn().map_err(|e| e.to_string())?;
            let t0 = std::time::Instant::now();
            loop {
                if let Some(st) = ch.try_wait().map_err(|e| e.to_string())? {
                    println!("hang suspect finished on its own in {:?} (exit {:?}): treated as a slow run, not a violation", t0.elapsed(), st.code());
                    return Err("a run exceeded the watchdog limit once but finished when re-run alone (slow machine?)".into());
                }
                if t0.elapsed().as_millis() as u64 > limit {
                    let _ = ch.kill();
                    let _ = ch.wait();
                    println!("VIOLATION property={id} replay={f}");
                    println!("  class={id}/hang: the plan did not terminate within {limit} ms, twice");
                    return Ok(1);
                }
                std::thread::sleep(std::time::Duration::from_millis(100));
            }
        }
        other => {
            // abnormal death: find the in-flight run with marker files, then confirm in isolation
            println!("child died abnormally ({other:?}); isolating the in-flight run");
            let mpath = format!("{}/sim/target/markers-{}.bin", engine::verif_dir(), std::process::id());
            let st2 = Command::new(&exe).args(["child", &id, &tier, "--markers", &mpath]).status().map_err(|e| e.to_string())?;
            if matches!(st2.code(), Some(0 | 1 | 2)) {
                let _ = std::fs::remove_file(&mpath);
                return nondeterministic_death(&id, seed, &tier, &format!("{status:?}"), None);
            }
            let bytes = std::fs::read(&mpath).unwrap_or_default();
            let _ = std::fs::remove_file(&mpath);
            let mut cands: Vec<u64> = bytes.chunks_exact(8).map(|c| u64::from_le_bytes(c.try_into().unwrap())).filter(|x| *x != 0).map(|x| x - 1).collect();
            cands.sort_unstable();
            cands.dedup();
            let cands_first = cands.first().copied();
            for idx in cands {
                let st = Command::new(&exe).args(["runone", &id, &tier, &idx.to_string()]).status().map_err(|e| e.to_string())?;
                if !matches!(st.code(), Some(0 | 1 | 2)) {
                    let sc = scenario(&id)?;
                    let plan = sc.plan(seed, idx, Tier::parse(&tier).unwrap());
                    let path = engine::replay_path(&id, seed, idx, "crash");
                    engine::write_replay(&path, &plan, &Violation::new(&format!("{id}/crash"), "process-death", format!("process died with {:?} while executing this plan", st)))?;
                    println!("VIOLATION property={id} replay={path}");
                    println!("  class={id}/crash: the process executing this plan died ({st:?})");
                    return Ok(1);
                }
            }
            nondeterministic_death(&id, seed, &tier, &format!("{st2:?}"), cands_first)
        }
    }
}

/// The batch died on a signal but the death does not reproduce deterministically. The harness itself is safe Rust
/// with no clock, thread race or randomness in any decision (proved by `determinism`), so a SIGSEGV / SIGABRT /
/// SIGBUS / SIGILL / SIGFPE that comes and goes can only be undefined behaviour or memory exhaustion in the code
/// under test: reported as a violation. (SIGKILL is not: the OOM killer or an operator may send it.)
fn nondeterministic_death(id: &str, seed: u64, tier: &str, status: &str, cand: Option<u64>) -> Result<u8, String> {
    let memsig = ["signal: 6", "signal: 11", "signal: 7", "signal: 4", "signal: 8", "unix_wait_status(6)", "unix_wait_status(11)", "unix_wait_status(134)", "unix_wait_status(139)", "unix_wait_status(7)", "unix_wait_status(4)", "unix_wait_status(8)"];
    if !memsig.iter().any(|m| status.contains(m)) {
        return Err(format!("child died abnormally ({status}) and the death is not reproducible"));
    }
    let sc = scenario(id)?;
    let idx = cand.unwrap_or(0);
    let plan = sc.plan(seed, idx, Tier::parse(tier).unwrap());
    let path = engine::replay_path(id, seed, idx, "crash-nondeterministic");
    engine::write_replay(&path, &plan, &Violation::new(&format!("{id}/crash-nondeterministic"), "process-death", format!("the batch died with {status}; re-running it did not die the same way. One of the in-flight plans is attached; the death is not tied to a single plan (memory corruption)")))?;
    println!("VIOLATION property={id} replay={path}");
    println!("  class={id}/crash-nondeterministic: the process running the batch died with {status} and the death does not reproduce deterministically — only undefined behaviour or memory exhaustion in the code under test can do that here (see DESIGN.md §3.6); `./check {id} thorough` re-executes a plan sample under Miri for C01");
    Ok(1)
}

fn cmd_runone(a: &[String]) -> Result<u8, String> {
    let id = a.first().ok_or("runone: id")?;
    let tier = Tier::parse(a.get(1).ok_or("tier")?).ok_or("tier")?;
    let idx: u64 = a.get(2).ok_or("idx")?.parse().map_err(|_| "idx")?;
    let sc = scenario(id)?;
    engine::install_panic_hook();
    let plan = sc.plan(seed_from_env(), idx, tier);
    let mut st = Stats::default();
    match engine::run_one(&*sc, &plan, &mut st) {
        RunResult::Ok => Ok(0),
        RunResult::Violation(v) => {
            println!("CLASS {}\n{}", v.class, v.detail);
            Ok(1)
        }
        RunResult::HarnessError(e) => Err(e),
    }
}

// ------------------------------------------------------------------------------------------------ child: the actual check

fn cmd_child(a: &[String]) -> Result<u8, String> {
    let id = a.first().ok_or("child: id")?.clone();
    let tier = Tier::parse(a.get(1).ok_or("tier")?).ok_or("tier")?;
    let markers = match a.iter().position(|x| x == "--markers") {
        Some(i) => {
            let p = a.get(i + 1).ok_or("--markers path")?;
            if let Some(d) = std::path::Path::new(p).parent() {
                let _ = std::fs::create_dir_all(d);
            }
            Some(std::fs::OpenOptions::new().create(true).write(true).read(true).truncate(true).open(p).map_err(|e| e.to_string())?)
        }
        None => None,
    };
    let seed = seed_from_env();
    let threads = threads_from_env();
    let sc = scenario(&id)?;
    #[cfg(feature = "tracing")]
    tracesub::install();
    engine::install_panic_hook();
    let total = sc.total_runs(tier);
    let known = engine::load_known()?;

    let b = engine::run_batch(&*sc, seed, tier, threads, 0, total, markers.as_ref());
    if !b.harness_errors.is_empty() {
        for e in &b.harness_errors {
            eprintln!("HARNESS-ERROR: {e}");
        }
        return Ok(2);
    }

    // minimise, write replay files, re-verify each in a fresh process
    let exe = std::env::current_exe().map_err(|e| e.to_string())?;
    let mut reported: Vec<(String, String, String)> = Vec::new(); // (class, path, detail)
    let mut known_hits: Vec<String> = Vec::new();
    let mut seen_class_sig: Vec<(String, String)> = Vec::new();
    for (idx, v, plan) in &b.violations {
        if seen_class_sig.iter().any(|(c, s)| *c == v.class && *s == v.sig) {
            continue;
        }
        seen_class_sig.push((v.class.clone(), v.sig.clone()));
        let (mp, mv, execs) = engine::minimise(&*sc, plan.clone(), v.clone());
        let mut path = engine::replay_path(&id, seed, *idx, "min");
        engine::write_replay(&path, &mp, &mv)?;
        let mut ok = replays_same(&exe, &path, &mv.class)?;
        let mut fv = mv.clone();
        if !ok {
            path = engine::replay_path(&id, seed, *idx, "full");
            engine::write_replay(&path, plan, v)?;
            ok = replays_same(&exe, &path, &v.class)?;
            fv = v.clone();
        }
        if !ok {
            // Same plan, same code, different outcome. Re-execute in this process a few times: if the outcomes vary here
            // too, the code under test is nondeterministic (it has no clock, threads or randomness, so that means
            // uninitialised / dangling memory) — a violation in its own right. Otherwise it is the harness's problem.
            let mut outcomes = Vec::new();
            for _ in 0..4 {
                let mut st = Stats::default();
                outcomes.push(match engine::run_one(&*sc, plan, &mut st) {
                    RunResult::Ok => format!("ok:{:x}", st.outcome),
                    RunResult::Violation(v2) => format!("{}:{:x}", v2.class, st.outcome),
                    RunResult::HarnessError(e) => format!("harness:{e}"),
                });
            }
            let varies = outcomes.iter().any(|o| *o != outcomes[0]) || !outcomes[0].starts_with(&v.class);
            if varies {
                let nv = Violation::new(&format!("{id}/nondeterministic-outcome"), "nondeterministic", format!("the plan of run {idx} gave different outcomes when executed repeatedly ({outcomes:?}; first seen: {}). rosu-map reads no clock, spawns no thread and draws no randomness, so identical input must give identical results; differing results mean uninitialised or dangling memory is being read", v.class));
                let path = engine::replay_path(&id, seed, *idx, "nondeterministic");
                engine::write_replay(&path, plan, &nv)?;
                println!("VIOLATION property={id} replay={path}");
                println!("  class={} run={idx}\n  {}", nv.class, nv.detail);
                reported.push((nv.class.clone(), path, nv.detail.clone()));
                continue;
            }
            eprintln!("HARNESS-ERROR: violation {} of run {idx} does not reproduce from its replay file {path} in a fresh process (nondeterminism)", v.class);
            return Ok(2);
        }
        // a known (recorded, unrepaired) finding is matched by property + signature of the *minimised* plan
        if let Some(k) = known.iter().find(|k| k.status == "known" && k.property == id && k.signature == fv.sig) {
            known_hits.push(format!("KNOWN-FINDING: property={} {} [signature {}; example replay {}]", id, k.what, k.signature, path));
            continue;
        }
        println!("VIOLATION property={id} replay={path}");
        println!("  class={} signature={} run={idx} (minimised with {execs} re-executions)", fv.class, fv.sig);
        println!("  {}", fv.detail.replace('\n', "\n  "));
        reported.push((fv.class.clone(), path, fv.detail.clone()));
    }
    for k in &known_hits {
        println!("{k}");
    }

    write_evidence(&*sc, &b, seed, tier, threads, reported.len() as i64, &known_hits)?;

    let rate = b.evaluations as f64 / b.wall_s.max(1e-9);
    println!(
        "{id} {}: {} runs in {:.1}s ({:.0} runs/s, {:.2e} runs/hour) on {threads} workers; {} distinct plans, {} non-trivial; digest {:016x}; violations: {} (raw hits {})",
        tier.name(),
        b.evaluations,
        b.wall_s,
        rate,
        rate * 3600.0,
        b.distinct_plans,
        b.distinct_nontrivial,
        b.digest,
        reported.len(),
        b.violation_count
    );
    if tier == Tier::Thorough {
        for p in sc.reach_probes() {
            if b.stats.get(p) == 0 {
                println!("REACH-GAP {id}: probe '{p}' never fired");
            }
        }
    }
    Ok(if reported.is_empty() { 0 } else { 1 })
}

fn replays_same(exe: &std::path::Path, path: &str, class: &str) -> Result<bool, String> {
    let out = Command::new(exe).args(["replay", path]).output().map_err(|e| e.to_string())?;
    let so = String::from_utf8_lossy(&out.stdout);
    Ok(out.status.code() == Some(1) && so.lines().any(|l| l == format!("CLASS {class}")))
}

fn cmd_replay(a: &[String]) -> Result<u8, String> {
    let path = a.first().ok_or("replay: file")?;
    let (plan, want) = engine::load_replay(path)?;
    let sc = scenario(&plan.prop)?;
    #[cfg(feature = "tracing")]
    tracesub::install();
    engine::install_panic_hook();
    let mut st = Stats::default();
    match engine::run_one(&*sc, &plan, &mut st) {
        RunResult::Ok => {
            println!("replay {path}: property {} held (recorded class: {})", plan.prop, want.unwrap_or_default());
            Ok(0)
        }
        RunResult::Violation(v) => {
            println!("CLASS {}", v.class);
            println!("VIOLATION property={} replay={path}", plan.prop);
            println!("  signature={}\n  {}", v.sig, v.detail.replace('\n', "\n  "));
            Ok(1)
        }
        RunResult::HarnessError(e) => Err(e),
    }
}

fn cmd_plan(a: &[String]) -> Result<u8, String> {
    let id = a.first().ok_or("plan: id")?;
    let tier = Tier::parse(a.get(1).ok_or("tier")?).ok_or("tier")?;
    let idx: u64 = a.get(2).ok_or("idx")?.parse().map_err(|_| "idx")?;
    let sc = scenario(id)?;
    print!("{}", sc.plan(seed_from_env(), idx, tier).to_json().to_string_pretty());
    Ok(0)
}

// ------------------------------------------------------------------------------------------------ determinism

/// `digest <ID> <tier> <from> <to> <threads>`: print the batch digest of a range (used by `determinism`).
fn cmd_digest(a: &[String]) -> Result<u8, String> {
    let id = a.first().ok_or("id")?;
    let tier = Tier::parse(a.get(1).ok_or("tier")?).ok_or("tier")?;
    let threads: usize = a.get(4).ok_or("threads")?.parse().map_err(|_| "threads")?;
    let sc = scenario(id)?;
    engine::install_panic_hook();
    let span: u64 = a.get(3).ok_or("to")?.parse().map_err(|_| "to")?;
    // "mid": a window in the seeded part of the index space (the sweep prefix is covered by from = 0)
    let from: u64 = match a.get(2).map(String::as_str) {
        Some("mid") => sc.total_runs(tier).saturating_sub(span + 1) / engine::BLOCK * engine::BLOCK,
        Some(x) => x.parse().map_err(|_| "from")?,
        None => return Err("from".into()),
    };
    let to = (from + span).min(sc.total_runs(tier));
    let b = engine::run_batch(&*sc, seed_from_env(), tier, threads, from, to, None);
    if !b.harness_errors.is_empty() {
        return Err(b.harness_errors.join("; "));
    }
    let mut sh = rng::Fnv::new();
    for (k, v) in &b.stats.c {
        sh.str(k);
        sh.u64(*v);
    }
    println!("DIGEST {:016x} stats {:016x} evals {} violations {}", b.digest, sh.finish(), b.evaluations, b.violation_count);
    Ok(0)
}

fn cmd_determinism(a: &[String]) -> Result<u8, String> {
    let ids: Vec<String> = if a.is_empty() { props::CLAIMED.iter().map(|s| (*s).to_string()).collect() } else { a.to_vec() };
    let exe = std::env::current_exe().map_err(|e| e.to_string())?;
    let nseeds: u64 = std::env::var("VERIF_DET_SEEDS").ok().and_then(|s| s.parse().ok()).unwrap_or(8);
    let span: u64 = std::env::var("VERIF_DET_SPAN").ok().and_then(|s| s.parse().ok()).unwrap_or(4096);
    let base = seed_from_env();
    let mut bad = 0;
    let mut n = 0;
    for id in &ids {
        for s in 0..nseeds {
            let seed = base.wrapping_add(s.wrapping_mul(0x9E37_79B9));
            let run = |threads: usize, from: &str| -> Result<String, String> {
                let out = Command::new(&exe).args(["digest", id, "quick", from, &span.to_string(), &threads.to_string()]).env("VERIF_SEED", seed.to_string()).output().map_err(|e| e.to_string())?;
                if !out.status.success() {
                    return Err(format!("digest run failed: {}", String::from_utf8_lossy(&out.stderr)));
                }
                Ok(String::from_utf8_lossy(&out.stdout).lines().find(|l| l.starts_with("DIGEST")).unwrap_or("").to_string())
            };
            // vary the window so that both the sweep prefix and the seeded part are covered
            let from = if s % 2 == 0 { "0" } else { "mid" };
            let d1 = run(1, from)?;
            let d16 = run(16, from)?;
            let d5 = run(5, from)?;
            let d1b = run(1, from)?;
            n += 1;
            if d1 != d16 || d1 != d5 || d1 != d1b || d1.is_empty() {
                bad += 1;
                println!("NONDETERMINISM property={id} seed={seed}: 1w='{d1}' 16w='{d16}' 5w='{d5}' 1w-again='{d1b}'");
            }
        }
        println!("determinism {id}: {nseeds} seeds x 4 processes (1, 16, 5, 1 workers) x {span} runs (windows: sweep prefix and seeded tail), divergent so far: {bad}");
    }
    println!("determinism: {n} seed/property pairs, {bad} divergent");
    if bad > 0 {
        return Err("nondeterminism detected".into());
    }
    Ok(0)
}

// ------------------------------------------------------------------------------------------------ miri

/// `miri-pack <n> <out-dir> <parts>`: choose n small C01 plans that reach the three `unsafe` blocks (lossy UTF-8
/// path, slider path splitting, custom sample banks) and write them as `parts` JSON packs for `miri-exec`.
fn cmd_miri_pack(a: &[String]) -> Result<u8, String> {
    let n: usize = a.first().ok_or("n")?.parse().map_err(|_| "n")?;
    let dir = a.get(1).ok_or("dir")?;
    let parts: usize = a.get(2).and_then(|s| s.parse().ok()).unwrap_or(16);
    let sc = scenario("C01")?;
    let seed = seed_from_env();
    std::fs::create_dir_all(dir).map_err(|e| e.to_string())?;
    let total = sc.total_runs(Tier::Quick);
    let mut chosen: Vec<J> = Vec::new();
    let (mut lossy, mut slider, mut bank, mut other) = (0, 0, 0, 0);
    let mut idx = total.saturating_sub(180_000); // seeded part
    while chosen.len() < n && idx < total {
        let mut p = sc.plan(seed, idx, Tier::Quick);
        idx += 1;
        if p.data.len() > 700 || p.data.is_empty() {
            continue;
        }
        let text = String::from_utf8_lossy(&p.data);
        let is_lossy = std::str::from_utf8(&p.data).is_err() && !p.data.starts_with(&[0xFF, 0xFE]) && !p.data.starts_with(&[0xFE, 0xFF]);
        let is_slider = text.contains("[HitObjects]") && text.contains('|');
        let is_bank = text.contains("[HitObjects]") && text.lines().any(|l| l.matches(':').count() >= 3);
        let quota = n / 4 + 1;
        let take = if is_lossy && lossy < quota {
            lossy += 1;
            true
        } else if is_slider && slider < quota {
            slider += 1;
            true
        } else if is_bank && bank < quota {
            bank += 1;
            true
        } else if other < quota {
            other += 1;
            true
        } else {
            false
        };
        if take {
            // Beatmap, Events, TimingPoints, HitObjects: the decoders on whose paths the unsafe blocks sit
            p.set("decs", 0b1_1010_0001);
            chosen.push(p.to_json());
        }
    }
    let per = chosen.len().div_ceil(parts.max(1)).max(1);
    for (k, c) in chosen.chunks(per).enumerate() {
        std::fs::write(format!("{dir}/pack-{k}.json"), J::Arr(c.to_vec()).to_string_pretty()).map_err(|e| e.to_string())?;
    }
    println!("miri-pack: {} plans ({lossy} lossy-utf8, {slider} slider-path, {bank} sample-bank, {other} other) in {} packs under {dir}", chosen.len(), chosen.len().div_ceil(per));
    Ok(0)
}

/// `miri-exec <pack.json>`: execute the plans of a pack single-threaded, without corpus, supervisor, watchdog or
/// threads — run under `cargo +nightly miri run`, i.e. the same simulated runs on a machine that checks for UB.
fn cmd_miri_exec(a: &[String]) -> Result<u8, String> {
    let path = a.first().ok_or("pack")?;
    let src = std::fs::read_to_string(path).map_err(|e| format!("{path}: {e}"))?;
    let j = json::parse(&src)?;
    let sc = props::make_exec_only("C01").ok_or("C01")?;
    let mut st = Stats::default();
    let mut bad = 0;
    let mut n = 0;
    for pj in j.as_arr().ok_or("pack is not an array")? {
        let plan = plan::Plan::from_json(pj)?;
        n += 1;
        println!("MIRI-RUN idx={} len={}", plan.idx, plan.data.len());
        if let Err(v) = sc.execute(&plan, &mut st) {
            println!("MIRI-VIOLATION idx={} class={}: {}", plan.idx, v.class, v.detail);
            bad += 1;
        }
    }
    println!("MIRI-EXEC-DONE plans={n} violations={bad}");
    Ok(u8::from(bad > 0))
}

/// `merge-evidence C01 [key=value…]`: fold the tracing-build evidence (evidence/C01.tracing.json) and the Miri
/// summary into evidence/C01.json, so one file describes every configuration the check ran.
fn cmd_merge_evidence(a: &[String]) -> Result<u8, String> {
    let id = a.first().ok_or("id")?;
    let dir = format!("{}/evidence", engine::verif_dir());
    let main_p = format!("{dir}/{id}.json");
    let mut ev = json::parse(&std::fs::read_to_string(&main_p).map_err(|e| format!("{main_p}: {e}"))?)?;
    let mut cfgs = J::obj();
    let tr_p = format!("{dir}/{id}.tracing.json");
    let mut extra_viol = 0i64;
    if let Ok(s) = std::fs::read_to_string(&tr_p) {
        let t = json::parse(&s)?;
        let c = t.get("coverage").cloned().unwrap_or(J::obj());
        let mut o = J::obj();
        for k in ["evaluations", "distinct_nontrivial", "batch_digest", "tracing_events_formatted", "tracing_bytes_formatted", "runs_per_hour", "raw_violating_runs"] {
            if let Some(v) = c.get(k) {
                o.set(k, v.clone());
            }
        }
        o.set("wall_s", t.get("wall_s").cloned().unwrap_or(J::Null));
        o.set("violations", t.get("violations").cloned().unwrap_or(J::Int(0)));
        extra_viol += t.get("violations").and_then(J::as_i64).unwrap_or(0);
        let same = c.get("batch_digest") == ev.get("coverage").and_then(|c| c.get("batch_digest"));
        o.set("same_batch_digest_as_default_build", J::Bool(same));
        cfgs.set("tracing-feature-with-formatting-subscriber", o);
    }
    let mut miri = J::obj();
    for kv in &a[1..] {
        if let Some((k, v)) = kv.split_once('=') {
            miri.set(k, v.parse::<i64>().map(J::Int).unwrap_or_else(|_| J::str(v)));
        }
    }
    if let J::Obj(m) = &miri {
        if !m.is_empty() {
            extra_viol += miri.get("violations").and_then(J::as_i64).unwrap_or(0);
            cfgs.set("miri-reexecution-of-plan-sample", miri);
        }
    }
    if let Some(J::Obj(c)) = ev.get("coverage").cloned().as_ref() {
        let mut c2 = J::Obj(c.clone());
        c2.set("configurations", cfgs);
        ev.set("coverage", c2);
    }
    let v0 = ev.get("violations").and_then(J::as_i64).unwrap_or(0);
    ev.set("violations", J::Int(v0 + extra_viol));
    std::fs::write(&main_p, ev.to_string_pretty()).map_err(|e| e.to_string())?;
    Ok(0)
}

// ------------------------------------------------------------------------------------------------ evidence

fn write_evidence(sc: &dyn Scenario, b: &Batch, seed: u64, tier: Tier, threads: usize, violations: i64, known_hits: &[String]) -> Result<(), String> {
    let id = sc.id();
    let mut cov = J::obj();
    cov.set("evaluations", J::Int(b.evaluations as i64));
    cov.set("distinct_nontrivial", J::Int(b.distinct_nontrivial as i64));
    cov.set("distinct_plan_hashes", J::Int(b.distinct_plans as i64));
    cov.set("rule", J::str(sc.rule()));
    cov.set("samples", J::Arr(b.samples.clone()));
    cov.set("exhaustive", J::Bool(false));
    let rate = b.evaluations as f64 / b.wall_s.max(1e-9);
    cov.set("runs_per_hour", J::Int((rate * 3600.0) as i64));
    cov.set("workers", J::Int(threads as i64));
    cov.set("batch_digest", J::str(format!("{:016x}", b.digest)));
    cov.set("simulated_time", J::str("none: rosu-map reads no clock and has no timers; coverage is reported in simulated steps"));
    let mut steps = J::obj();
    let mut fired = J::obj();
    let mut probes = J::obj();
    let mut transports = J::obj();
    let mut other = J::obj();
    let mut bsig = 0;
    let mut pairs = 0;
    for (k, v) in &b.stats.c {
        let j = J::Int(*v as i64);
        if let Some(r) = k.strip_prefix("steps.") {
            steps.set(r, j);
        } else if let Some(r) = k.strip_prefix("fired.") {
            fired.set(r, j);
        } else if let Some(r) = k.strip_prefix("probe.") {
            probes.set(r, j);
        } else if let Some(r) = k.strip_prefix("transport.") {
            transports.set(r, j);
        } else if k.starts_with("bsig.") {
            bsig += 1;
        } else if k.starts_with("pair.") {
            pairs += 1;
        } else {
            other.set(k, j);
        }
    }
    cov.set("simulated_steps", steps);
    cov.set("fault_kinds_fired", fired);
    cov.set("reach_probes", probes);
    cov.set("transports", transports);
    cov.set("counters", other);
    if bsig > 0 {
        cov.set("chunk_boundary_signature_matrix_cells_hit", J::str(format!("{bsig} of 169 (byte class before x byte class after a chunk boundary)")));
    }
    if pairs > 0 {
        cov.set("operation_pair_cells_hit", J::str(format!("{pairs} distinct (operation directly followed by operation) pairs executed on the shared object")));
    }
    let gaps: Vec<J> = sc.reach_probes().into_iter().filter(|p| b.stats.get(p) == 0).map(J::str).collect();
    cov.set("reach_gaps", J::Arr(gaps));
    cov.set("components", sc.components());
    cov.set("slowest_run", J::obj().with("idx", J::Int(b.slowest.0 as i64)).with("seconds", J::Num(b.slowest.1)));
    cov.set("known_findings_hit", J::Arr(known_hits.iter().map(|s| J::str(&**s)).collect()));
    cov.set("raw_violating_runs", J::Int(b.violation_count as i64));
    #[cfg(feature = "tracing")]
    {
        cov.set("feature_set", J::str("tracing (rosu-map/tracing + formatting subscriber)"));
        cov.set("tracing_events_formatted", J::Int(tracesub::EVENTS.load(std::sync::atomic::Ordering::Relaxed) as i64));
        cov.set("tracing_bytes_formatted", J::Int(tracesub::BYTES.load(std::sync::atomic::Ordering::Relaxed) as i64));
    }
    #[cfg(not(feature = "tracing"))]
    cov.set("feature_set", J::str("default"));

    let mut ev = J::obj();
    ev.set("property_id", J::str(id));
    ev.set("tier", J::str(tier.name()));
    ev.set("seed", J::Int(seed as i64));
    ev.set("level", J::str(sc.level()));
    ev.set("coverage", cov);
    ev.set("assumptions", J::Arr(sc.assumptions().into_iter().map(J::str).collect()));
    ev.set("wall_s", J::Num((b.wall_s * 1000.0).round() / 1000.0));
    ev.set("violations", J::Int(violations));
    let suffix = if cfg!(feature = "tracing") { ".tracing" } else { "" };
    let dir = format!("{}/evidence", engine::verif_dir());
    std::fs::create_dir_all(&dir).map_err(|e| e.to_string())?;
    let path = format!("{dir}/{id}{suffix}.json");
    std::fs::write(&path, ev.to_string_pretty()).map_err(|e| format!("{path}: {e}"))
}
