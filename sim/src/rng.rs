//! The only source of randomness in the simulator: SplitMix64 (seed expansion) and xoshiro256** (per-run stream).
//! Every run's stream is a pure function of (master seed, property id, run index).

#[derive(Clone)]
pub struct Rng {
    s: [u64; 4],
}

pub fn splitmix(x: &mut u64) -> u64 {
    *x = x.wrapping_add(0x9E37_79B9_7F4A_7C15);
    let mut z = *x;
    z = (z ^ (z >> 30)).wrapping_mul(0xBF58_476D_1CE4_E5B9);
    z = (z ^ (z >> 27)).wrapping_mul(0x94D0_49BB_1331_11EB);
    z ^ (z >> 31)
}

/// FNV-1a, used for all hashing (plan hashes, fingerprints, digests). No `std` hasher with random keys is
/// ever used for a decision or a digest.
#[derive(Clone, Copy)]
pub struct Fnv(pub u64);
impl Fnv {
    pub const fn new() -> Self {
        Fnv(0xcbf2_9ce4_8422_2325)
    }
    #[inline]
    pub fn bytes(&mut self, b: &[u8]) {
        let mut h = self.0;
        for &x in b {
            h ^= u64::from(x);
            h = h.wrapping_mul(0x0000_0100_0000_01B3);
        }
        self.0 = h;
    }
    #[inline]
    pub fn u64(&mut self, v: u64) {
        self.bytes(&v.to_le_bytes());
    }
    pub fn str(&mut self, s: &str) {
        self.bytes(s.as_bytes());
        self.bytes(&[0xff]);
    }
    pub fn finish(&self) -> u64 {
        // final avalanche so that short inputs spread over all bits
        let mut x = self.0;
        splitmix(&mut x)
    }
}
impl std::fmt::Write for Fnv {
    fn write_str(&mut self, s: &str) -> std::fmt::Result {
        self.bytes(s.as_bytes());
        Ok(())
    }
}

pub fn hash_str(s: &str) -> u64 {
    let mut f = Fnv::new();
    f.str(s);
    f.finish()
}

impl Rng {
    pub fn new(seed: u64) -> Self {
        let mut x = seed;
        let s = [splitmix(&mut x), splitmix(&mut x), splitmix(&mut x), splitmix(&mut x)];
        Rng { s }
    }
    /// Stream for one run.
    pub fn for_run(master: u64, prop: &str, idx: u64) -> Self {
        let mut x = master ^ hash_str(prop).rotate_left(17);
        let a = splitmix(&mut x);
        let mut y = a ^ idx.wrapping_mul(0xD6E8_FEB8_6659_FD93);
        Rng::new(splitmix(&mut y))
    }
    #[inline]
    pub fn next(&mut self) -> u64 {
        let r = self.s[1].wrapping_mul(5).rotate_left(7).wrapping_mul(9);
        let t = self.s[1] << 17;
        self.s[2] ^= self.s[0];
        self.s[3] ^= self.s[1];
        self.s[1] ^= self.s[2];
        self.s[0] ^= self.s[3];
        self.s[2] ^= t;
        self.s[3] = self.s[3].rotate_left(45);
        r
    }
    /// uniform in 0..n (n > 0)
    #[inline]
    pub fn below(&mut self, n: usize) -> usize {
        debug_assert!(n > 0);
        ((u128::from(self.next()) * n as u128) >> 64) as usize
    }
    /// inclusive range
    pub fn range(&mut self, lo: i64, hi: i64) -> i64 {
        lo + self.below((hi - lo + 1) as usize) as i64
    }
    pub fn chance(&mut self, num: usize, den: usize) -> bool {
        self.below(den) < num
    }
    pub fn unit(&mut self) -> f64 {
        (self.next() >> 11) as f64 / (1u64 << 53) as f64
    }
    pub fn pick<'a, T>(&mut self, v: &'a [T]) -> &'a T {
        &v[self.below(v.len())]
    }
    /// small numbers likely, large ones possible: 1..=max
    pub fn small(&mut self, max: usize) -> usize {
        let bits = 64 - (max as u64).leading_zeros() as usize;
        let b = 1 + self.below(bits.max(1));
        let m = (1usize << b).min(max);
        1 + self.below(m)
    }
    pub fn shuffle<T>(&mut self, v: &mut [T]) {
        for i in (1..v.len()).rev() {
            let j = self.below(i + 1);
            v.swap(i, j);
        }
    }
}
