//! Generic plan minimisation candidates, produced lazily, most aggressive first:
//! transport → Interrupted placements → file lines (ddmin-style chunk removal) → bytes → line/ops histories → op arguments.

use crate::corpus::{encode_text, model_text, sniff};
use crate::plan::Plan;
use std::rc::Rc;

fn chunk_removals(n: usize) -> impl Iterator<Item = (usize, usize)> {
    // (start, len) for len = n/2, n/4, …, 1
    let mut sizes = Vec::new();
    let mut s = n / 2;
    while s >= 1 {
        sizes.push(s);
        if s == 1 {
            break;
        }
        s /= 2;
    }
    sizes.into_iter().flat_map(move |len| (0..n).step_by(len).map(move |st| (st, len.min(n - st))))
}

pub fn generic_candidates(plan: &Plan) -> Box<dyn Iterator<Item = Plan> + '_> {
    let mut its: Vec<Box<dyn Iterator<Item = Plan> + '_>> = Vec::new();

    // 1. transport
    if !plan.sched.is_empty() || plan.get("tail") != 0 {
        let mut c = plan.clone();
        c.sched.clear();
        c.set("tail", 0);
        its.push(Box::new(std::iter::once(c)));
        let first = plan.sched.first().copied().unwrap_or(1);
        its.push(Box::new((1..=first.min(8)).map(move |k| {
            let mut c = plan.clone();
            c.sched = vec![k];
            c.set("tail", 0);
            c
        })));
        let n = plan.sched.len();
        its.push(Box::new(chunk_removals(n).map(move |(st, len)| {
            let mut c = plan.clone();
            c.sched.drain(st..st + len);
            c
        })));
    }
    // 2. Interrupted placements
    if !plan.eintr.is_empty() {
        let mut c = plan.clone();
        c.eintr.clear();
        its.push(Box::new(std::iter::once(c)));
        let n = plan.eintr.len();
        its.push(Box::new(chunk_removals(n).map(move |(st, len)| {
            let mut c = plan.clone();
            c.eintr.drain(st..st + len);
            c
        })));
    }
    // 3. file lines
    if !plan.data.is_empty() && plan.get("noshrink_data") == 0 {
        let (enc, _) = sniff(&plan.data);
        let text = model_text(&plan.data);
        let lines: Rc<Vec<String>> = Rc::new(text.split_inclusive('\n').map(str::to_string).collect());
        let n = lines.len();
        if n > 1 {
            let l2 = lines.clone();
            its.push(Box::new(chunk_removals(n).map(move |(st, len)| {
                let mut t = String::new();
                for (i, l) in l2.iter().enumerate() {
                    if i < st || i >= st + len {
                        t.push_str(l);
                    }
                }
                let mut c = plan.clone();
                c.data = encode_text(&t, enc);
                c
            })));
        }
        // 4. bytes (only for small data)
        let nb = plan.data.len();
        if nb <= 4096 {
            its.push(Box::new(chunk_removals(nb).filter(|(_, len)| *len <= 64).map(move |(st, len)| {
                let mut c = plan.clone();
                c.data.drain(st..st + len);
                c
            })));
        }
    }
    // 5. line histories
    if !plan.lines.is_empty() {
        let n = plan.lines.len();
        its.push(Box::new(chunk_removals(n).map(move |(st, len)| {
            let mut c = plan.clone();
            c.lines.drain(st..st + len);
            c
        })));
        // drop trailing fields of a line
        its.push(Box::new((0..n).filter_map(move |i| {
            let l = &plan.lines[i];
            let cut = l.rfind(',')?;
            let mut c = plan.clone();
            c.lines[i] = l[..cut].to_string();
            Some(c)
        })));
    }
    // 6. op histories
    if !plan.ops.is_empty() {
        let n = plan.ops.len();
        its.push(Box::new(chunk_removals(n).map(move |(st, len)| {
            let mut c = plan.clone();
            c.ops.drain(st..st + len);
            c
        })));
        its.push(Box::new((0..n).flat_map(move |i| {
            let na = plan.ops[i].a.len();
            (0..na).flat_map(move |j| {
                let v = plan.ops[i].a[j];
                let mut alts = Vec::new();
                if v != 0.0 {
                    alts.push(0.0);
                }
                if v != 1.0 && v != 0.0 {
                    alts.push(1.0);
                }
                if v.fract() != 0.0 && v.is_finite() {
                    alts.push(v.trunc());
                    alts.push((v * 4.0).round() / 4.0);
                }
                alts.into_iter().filter(move |a| a.to_bits() != v.to_bits()).map(move |a| {
                    let mut c = plan.clone();
                    c.ops[i].a[j] = a;
                    c
                })
            })
        })));
    }
    Box::new(its.into_iter().flatten())
}
