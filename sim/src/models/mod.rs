//! Small executable reference models used as oracles (the trusted base of C05, C12, C13, C20).
pub mod events;
pub mod router;
pub mod timing;
