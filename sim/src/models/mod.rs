//! Small executable reference models used as oracles.
