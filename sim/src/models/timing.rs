//! Legacy timing-point model (C12) and sorted-list collection model (C13), written from the property statements.
//! Collection: four lists, strictly increasing in time, one point per time; `add` drops a difficulty / effect /
//! sample point that repeats the values of the latest point at-or-before its time (difficulty/effect compare with
//! the default when there is none; a sample point with no earlier point is never redundant; timing points never),
//! otherwise replaces the point at that time or inserts in order.
//! Lines: groups = maximal runs of accepted lines whose time is within f64::EPSILON of the previous accepted
//! line; per kind the last inherited line wins, else the first timing-change line; flush order timing →
//! difficulty → effect → sample.

#[derive(Clone, Debug, PartialEq)]
pub struct MT {
    pub time: f64,
    pub beat_len: f64,
    pub omit: bool,
    pub sig: u32,
}
#[derive(Clone, Debug, PartialEq)]
pub struct MD {
    pub time: f64,
    pub sv: f64,
    pub ticks: bool,
}
#[derive(Clone, Debug, PartialEq)]
pub struct ME {
    pub time: f64,
    pub kiai: bool,
    pub scroll: f64,
}
#[derive(Clone, Debug, PartialEq)]
pub struct MS {
    pub time: f64,
    pub bank: u8,
    pub vol: i32,
    pub custom: i32,
}
#[derive(Default, Debug, Clone, PartialEq)]
pub struct MC {
    pub t: Vec<MT>,
    pub d: Vec<MD>,
    pub e: Vec<ME>,
    pub s: Vec<MS>,
}

/// index of the latest point at-or-before `time` (linear scan)
pub fn active<T>(v: &[T], time: f64, key: impl Fn(&T) -> f64) -> Option<usize> {
    // (at or after the last point: the answer of the scan below, without the scan)
    if let Some(l) = v.last() {
        if key(l).total_cmp(&time).is_le() {
            return Some(v.len() - 1);
        }
    }
    let mut r = None;
    for (i, p) in v.iter().enumerate() {
        if key(p).total_cmp(&time).is_le() {
            r = Some(i);
        }
    }
    r
}
fn upsert<T>(v: &mut Vec<T>, p: T, key: impl Fn(&T) -> f64) {
    let t = key(&p);
    // (appending after the last point: same result as the general case below, without the scan)
    if v.last().map_or(true, |q| key(q).total_cmp(&t).is_lt()) {
        v.push(p);
        return;
    }
    if let Some(i) = v.iter().position(|q| key(q).total_cmp(&t).is_eq()) {
        v[i] = p;
    } else {
        let i = v.iter().position(|q| key(q).total_cmp(&t).is_gt()).unwrap_or(v.len());
        v.insert(i, p);
    }
}

impl MC {
    pub fn add_t(&mut self, p: MT) {
        upsert(&mut self.t, p, |q| q.time);
    }
    /// does the point merely repeat what is active at its time?
    pub fn red_d(&self, p: &MD) -> bool {
        match active(&self.d, p.time, |q| q.time) {
            Some(i) => self.d[i].ticks == p.ticks && (self.d[i].sv - p.sv).abs() < f64::EPSILON,
            None => p.ticks && (p.sv - 1.0).abs() < f64::EPSILON,
        }
    }
    pub fn red_e(&self, p: &ME) -> bool {
        match active(&self.e, p.time, |q| q.time) {
            Some(i) => self.e[i].kiai == p.kiai && (self.e[i].scroll - p.scroll).abs() < f64::EPSILON,
            None => !p.kiai && (p.scroll - 1.0).abs() < f64::EPSILON,
        }
    }
    pub fn red_s(&self, p: &MS) -> bool {
        match active(&self.s, p.time, |q| q.time) {
            Some(i) => {
                let q = &self.s[i];
                q.bank == p.bank && q.vol == p.vol && q.custom == p.custom
            }
            None => false,
        }
    }
    pub fn add_d(&mut self, p: MD) {
        if !self.red_d(&p) {
            upsert(&mut self.d, p, |q| q.time);
        }
    }
    pub fn add_e(&mut self, p: ME) {
        if !self.red_e(&p) {
            upsert(&mut self.e, p, |q| q.time);
        }
    }
    pub fn add_s(&mut self, p: MS) {
        if !self.red_s(&p) {
            upsert(&mut self.s, p, |q| q.time);
        }
    }
    /// insert-or-replace without the redundancy test (the `ControlPoint::add` trait method used directly)
    pub fn raw_d(&mut self, p: MD) {
        upsert(&mut self.d, p, |q| q.time);
    }
    pub fn raw_e(&mut self, p: ME) {
        upsert(&mut self.e, p, |q| q.time);
    }
    pub fn raw_s(&mut self, p: MS) {
        upsert(&mut self.s, p, |q| q.time);
    }
}

const LIM: f64 = 2_147_483_647.0;
fn pnum(s: &str) -> Option<f64> {
    let n: f64 = s.trim().parse().ok()?;
    if n < -LIM || n > LIM || n.is_nan() {
        None
    } else {
        Some(n)
    }
}
fn pint(s: &str) -> Option<i32> {
    let n: i32 = s.trim().parse().ok()?;
    if n < -i32::MAX {
        None
    } else {
        Some(n)
    }
}
fn trim_comment(s: &str) -> &str {
    s.find("//").map_or(s, |i| &s[..i]).trim_end()
}

pub struct Line {
    pub time: f64,
    pub beat_len: f64,
    pub sig: u32,
    pub bank: u8,
    pub custom: i32,
    pub vol: i32,
    pub tc: bool,
    pub kiai: bool,
    pub omit: bool,
}

/// Field grammar of one timing-point line; None = rejected.
pub fn parse_line(line: &str, def_bank: u8, def_vol: i32) -> Option<Line> {
    let mut f = trim_comment(line).split(',');
    let time = pnum(f.next()?)?;
    let bl: f64 = f.next()?.trim().parse().ok()?;
    if bl < -LIM || bl > LIM {
        return None;
    }
    let mut sig = 4u32;
    if let Some(x) = f.next() {
        if !x.starts_with('0') {
            let n = pint(x)?;
            if n < 1 {
                return None;
            }
            sig = n as u32;
        }
    }
    let mut bank = match f.next() {
        Some(x) => {
            let n = pint(x)?;
            if (0..=3).contains(&n) {
                n as u8
            } else {
                def_bank
            }
        }
        None => def_bank,
    };
    let custom = match f.next() {
        Some(x) => pint(x)?,
        None => 0,
    };
    let vol = match f.next() {
        Some(x) => pint(x)?,
        None => def_vol,
    };
    let tc = match f.next() {
        Some(x) => x.starts_with('1'),
        None => true,
    };
    let (mut kiai, mut omit) = (false, false);
    if let Some(x) = f.next() {
        let fl: i32 = x.parse().ok()?;
        kiai = fl & 1 != 0;
        omit = fl & 8 != 0;
    }
    if bank == 0 {
        bank = 1;
    }
    if tc && bl.is_nan() {
        return None;
    }
    Some(Line { time, beat_len: bl, sig, bank, custom, vol, tc, kiai, omit })
}

/// The legacy model over a line history. `mode`: 0 osu, 1 taiko, 2 catch, 3 mania. A pseudo-line `!mode N` stands for a
/// `[General] Mode: N` record arriving between timing-point lines (sections may repeat): the mode that counts for a
/// line is the one known when that line arrives.
pub fn model(lines: &[String], mode: i64, def_bank: u8, def_vol: i32) -> (MC, Vec<bool>) {
    let mut mode = mode;
    let mut c = MC::default();
    let (mut pt, mut pd, mut pe, mut ps): (Option<MT>, Option<MD>, Option<ME>, Option<MS>) = (None, None, None, None);
    let mut ptime = 0.0f64;
    let mut accepted = Vec::with_capacity(lines.len());
    fn flush(c: &mut MC, pt: &mut Option<MT>, pd: &mut Option<MD>, pe: &mut Option<ME>, ps: &mut Option<MS>) {
        if let Some(p) = pt.take() {
            c.add_t(p);
        }
        if let Some(p) = pd.take() {
            c.add_d(p);
        }
        if let Some(p) = pe.take() {
            c.add_e(p);
        }
        if let Some(p) = ps.take() {
            c.add_s(p);
        }
    }
    for l in lines {
        if let Some(m) = l.strip_prefix("!mode ") {
            // a mode is spelled exactly 0, 1, 2 or 3; any other value is not a mode and changes nothing
            if let Some(m) = ["0", "1", "2", "3"].iter().position(|x| *x == m.trim()) {
                mode = m as i64;
            }
            accepted.push(false);
            continue;
        }
        if l.starts_with("!sec ") || l.starts_with("!raw ") {
            // a record of another section: not a timing-point line
            accepted.push(false);
            continue;
        }
        let Some(x) = parse_line(l, def_bank, def_vol) else {
            accepted.push(false);
            continue;
        };
        accepted.push(true);
        if (x.time - ptime).abs() >= f64::EPSILON {
            flush(&mut c, &mut pt, &mut pd, &mut pe, &mut ps);
        }
        let sm = if x.beat_len < 0.0 { 100.0 / -x.beat_len } else { 1.0 };
        let t = MT { time: x.time, beat_len: x.beat_len.clamp(6.0, 60000.0), omit: x.omit, sig: x.sig };
        let d = MD { time: x.time, sv: sm.clamp(0.1, 10.0), ticks: !x.beat_len.is_nan() };
        let s = MS { time: x.time, bank: x.bank, vol: x.vol.clamp(0, 100), custom: x.custom };
        let e = ME { time: x.time, kiai: x.kiai, scroll: if mode == 1 || mode == 3 { sm.clamp(0.01, 10.0) } else { 1.0 } };
        if x.tc {
            if pt.is_none() {
                pt = Some(t);
            }
            if pd.is_none() {
                pd = Some(d);
            }
            if ps.is_none() {
                ps = Some(s);
            }
            if pe.is_none() {
                pe = Some(e);
            }
        } else {
            pd = Some(d);
            ps = Some(s);
            pe = Some(e);
        }
        ptime = x.time;
    }
    flush(&mut c, &mut pt, &mut pd, &mut pe, &mut ps);
    (c, accepted)
}
