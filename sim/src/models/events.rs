//! Reference for the slider event stream (C20), written from the statement: one head; per span its ticks in
//! chronological order (multiples of the tick distance along the path, mirrored in time on reversed spans, none
//! within 10 ms of travel of the span end, identically placed on every span) followed — except after the last
//! span — by a repeat; then the legacy last tick (max of half-way and 36 ms before the end; progress mirrored for
//! even span counts) and the tail. Structure (kinds, span indexes, counts) is compared exactly, numbers within a
//! relative tolerance because a model may legitimately round differently from the code (it accumulates d += tick).

use rosu_map::section::hit_objects::{SliderEvent, SliderEventType};

pub fn close(a: f64, b: f64) -> bool {
    a == b || (a.is_nan() && b.is_nan()) || (a - b).abs() <= 1e-9 * (1.0 + a.abs().max(b.abs()))
}

pub struct Params {
    pub start: f64,
    pub dur: f64,
    pub vel: f64,
    pub tick_dist: f64,
    pub total: f64,
    pub spans: i32,
}

pub fn check(p: &Params, got: &[SliderEvent]) -> Result<(), String> {
    let Params { start, dur, vel, tick_dist, total, spans } = *p;
    let len = total.min(100_000.0);
    let td = tick_dist.clamp(0.0, len);
    let min_end = vel * 10.0;
    let mut i = 0usize;
    fn nx<'a>(got: &'a [SliderEvent], i: &mut usize, what: &str) -> Result<&'a SliderEvent, String> {
        let e = got.get(*i).ok_or(format!("missing {what} (stream ended after {} events)", *i))?;
        *i += 1;
        Ok(e)
    }
    let h = nx(got, &mut i, "head")?;
    if h.kind != SliderEventType::Head || h.span_idx != 0 || h.time != start || h.path_progress != 0.0 || h.span_start_time != start {
        return Err(format!("bad head {h:?}"));
    }
    let mut first_span: Option<Vec<f64>> = None;
    for s in 0..spans {
        let sst = start + f64::from(s) * dur;
        let rev = s % 2 == 1;
        let mut ds = vec![];
        let mut last_t = f64::NEG_INFINITY;
        while let Some(e) = got.get(i) {
            if e.kind != SliderEventType::Tick {
                break;
            }
            i += 1;
            if e.span_idx != s || !close(e.span_start_time, sst) {
                return Err(format!("tick of span {s} carries span data {e:?}"));
            }
            ds.push(e.path_progress * len);
            let tp = if rev { 1.0 - e.path_progress } else { e.path_progress };
            if !close(e.time, sst + tp * dur) {
                return Err(format!("tick time {e:?}: expected {} (span {s}, reversed {rev})", sst + tp * dur));
            }
            if e.time < last_t {
                return Err(format!("ticks of span {s} not chronological at {e:?}"));
            }
            last_t = e.time;
        }
        let mut sorted = ds.clone();
        sorted.sort_by(f64::total_cmp);
        if td > 0.0 {
            // the first tick is exactly at one tick distance under every reading of "multiples of the tick distance",
            // so its existence is decided exactly (no tolerance): it exists iff it is on the path and not within the
            // minimum distance from the end
            let first_exists = td < len - min_end && td <= len;
            if first_exists && sorted.is_empty() {
                return Err(format!("span {s}: no tick although the first multiple {td} lies before the cut-off {} (len {len})", len - min_end));
            }
            if !first_exists && !sorted.is_empty() {
                return Err(format!("span {s}: {} tick(s) although the first multiple {td} is not before the cut-off {} (len {len}, min-from-end {min_end})", sorted.len(), len - min_end));
            }
            for (k, d) in sorted.iter().enumerate() {
                let want = (k + 1) as f64 * td;
                if !close(*d, want) && (d - want).abs() > 1e-6 * len {
                    return Err(format!("span {s}: tick {k} at distance {d}, expected the multiple {want} of tick distance {td}"));
                }
                if *d >= len - min_end + 1e-6 * len {
                    return Err(format!("span {s}: tick at {d} lies within the minimum distance from the end (len {len}, min {min_end})"));
                }
                if *d > len * (1.0 + 1e-12) {
                    return Err(format!("span {s}: tick beyond the path ({d} > {len})"));
                }
            }
            let nxt = (sorted.len() + 1) as f64 * td;
            if nxt < len - min_end - 1e-6 * len && nxt <= len {
                return Err(format!("span {s}: missing tick at {nxt} (have {} ticks; len {len}, tick distance {td}, min-from-end {min_end})", sorted.len()));
            }
        } else if !sorted.is_empty() {
            return Err(format!("span {s}: {} ticks although the tick distance is zero", sorted.len()));
        }
        match &first_span {
            None => first_span = Some(sorted),
            Some(f) => {
                if f.len() != sorted.len() || f.iter().zip(&sorted).any(|(a, b)| a.to_bits() != b.to_bits()) {
                    return Err(format!("span {s}: ticks not placed identically to span 0 ({} vs {})", sorted.len(), f.len()));
                }
            }
        }
        if s < spans - 1 {
            let e = nx(got, &mut i, "repeat")?;
            if e.kind != SliderEventType::Repeat || e.span_idx != s || !close(e.time, sst + dur) || e.path_progress != f64::from((s + 1) % 2) || !close(e.span_start_time, sst) {
                return Err(format!("after span {s} expected a repeat at {} with progress {}, got {e:?}", sst + dur, (s + 1) % 2));
            }
        }
    }
    let total_d = f64::from(spans) * dur;
    let fs = spans - 1;
    let fsst = start + f64::from(fs) * dur;
    let e = nx(got, &mut i, "last tick")?;
    let lt = (start + total_d / 2.0).max(fsst + dur - 36.0);
    let mut lp = (lt - fsst) / dur;
    if spans % 2 == 0 {
        lp = 1.0 - lp;
    }
    if e.kind != SliderEventType::LastTick || e.span_idx != fs || !close(e.time, lt) || !close(e.path_progress, lp) || !close(e.span_start_time, fsst) {
        return Err(format!("last tick {e:?}: expected time {lt}, progress {lp}, span {fs}"));
    }
    let e = nx(got, &mut i, "tail")?;
    if e.kind != SliderEventType::Tail || e.span_idx != fs || !close(e.time, start + total_d) || e.path_progress != f64::from(spans % 2) || !close(e.span_start_time, fsst) {
        return Err(format!("tail {e:?}: expected time {}, progress {}", start + total_d, spans % 2));
    }
    if i != got.len() {
        return Err(format!("{} extra events after the tail", got.len() - i));
    }
    Ok(())
}
