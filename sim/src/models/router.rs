//! Reference router written from the statement of C05 (~40 lines): sniff BOM, decode the whole payload lossily,
//! split on LF, trim trailing whitespace, version from the first non-blank line if it carries the prefix
//! (otherwise latest, and that line itself may open a section), skip to the first exact `[Name]` header, then
//! deliver every non-blank, non-`//` line to the section of the latest recognised header.

use crate::corpus::model_text;

pub const LATEST: i32 = 14;
const PREFIX: &str = "osu file format v";

pub fn section_of(line: &str) -> Option<&'static str> {
    let inner = line.strip_prefix('[')?.strip_suffix(']')?;
    ["General", "Editor", "Metadata", "Difficulty", "Events", "TimingPoints", "Colours", "HitObjects", "Variables", "CatchTheBeat", "Mania"].into_iter().find(|s| *s == inner)
}

#[derive(Debug, PartialEq, Clone)]
pub struct Routed {
    pub version: i32,
    /// (section, trimmed line, index of the line in `text.split('\n')`)
    pub log: Vec<(&'static str, String, usize)>,
}

pub fn route_text(text: &str) -> Routed {
    let mut lines: Vec<&str> = text.split('\n').map(str::trim_end).collect();
    if text.ends_with('\n') || text.is_empty() {
        lines.pop();
    }
    let mut version = LATEST;
    let mut cur: Option<&'static str> = None;
    let mut i = 0;
    // version: first non-blank line
    while i < lines.len() {
        let l = lines[i];
        i += 1;
        if l.is_empty() {
            continue;
        }
        if l.starts_with(PREFIX) {
            match l.rsplit('v').next().unwrap_or("").trim().parse::<i32>() {
                Ok(v) if v >= -i32::MAX => version = v,
                _ => cur = section_of(l), // bad number: latest version; the line cannot be a header anyway
            }
        } else {
            cur = section_of(l);
        }
        break;
    }
    let mut log = Vec::new();
    while i < lines.len() {
        let l = lines[i];
        let li = i;
        i += 1;
        let Some(sec) = cur else {
            cur = section_of(l);
            continue;
        };
        if l.is_empty() || l.trim_start().starts_with("//") {
            continue;
        }
        if let Some(s) = section_of(l) {
            cur = Some(s);
            continue;
        }
        log.push((sec, l.to_string(), li));
    }
    Routed { version, log }
}

pub fn route(bytes: &[u8]) -> Routed {
    route_text(&model_text(bytes))
}
