//! Simulated transport. `SimReader` models "a buffered reader over a device that hands out n_i bytes per read,
//! or EINTR, or an error": the window exposed by `fill_buf` is fixed until consumed; faults fire only when the
//! device is asked for more. It implements `BufRead` and `Read` over one position so `read_until` and
//! `read_exact` see one consistent stream, and it can also sit (as a raw `Read`) under a real `std::io::BufReader`.
//! `SimWriter` is the sink: short writes, EINTR, hard error / Ok(0) at an output offset, flush failure.
//! Neither draws randomness: every decision comes from the plan.

use std::cell::RefCell;
use std::io::{self, BufRead, ErrorKind, Read, Write};
use std::rc::Rc;

/// Non-transient error kinds a device may report. The first five are the ones named by the property; the others are
/// what real readers and sinks also return (pipes, sockets, full or read-only file systems, quotas).
pub const KINDS: [ErrorKind; 20] = [
    ErrorKind::Other,
    ErrorKind::UnexpectedEof,
    ErrorKind::PermissionDenied,
    ErrorKind::TimedOut,
    ErrorKind::WouldBlock,
    ErrorKind::BrokenPipe,
    ErrorKind::NotFound,
    ErrorKind::ConnectionReset,
    ErrorKind::ConnectionAborted,
    ErrorKind::InvalidData,
    ErrorKind::InvalidInput,
    ErrorKind::WriteZero,
    ErrorKind::StorageFull,
    ErrorKind::Unsupported,
    ErrorKind::OutOfMemory,
    ErrorKind::NotConnected,
    ErrorKind::AlreadyExists,
    ErrorKind::QuotaExceeded,
    ErrorKind::FileTooLarge,
    ErrorKind::ResourceBusy,
];
pub fn kind_of(i: i64) -> ErrorKind {
    KINDS[i.rem_euclid(KINDS.len() as i64) as usize]
}

pub fn kind_name(k: ErrorKind) -> &'static str {
    match k {
        ErrorKind::Other => "Other",
        ErrorKind::UnexpectedEof => "UnexpectedEof",
        ErrorKind::PermissionDenied => "PermissionDenied",
        ErrorKind::TimedOut => "TimedOut",
        ErrorKind::WouldBlock => "WouldBlock",
        ErrorKind::WriteZero => "WriteZero",
        ErrorKind::Interrupted => "Interrupted",
        ErrorKind::InvalidData => "InvalidData",
        ErrorKind::NotFound => "NotFound",
        ErrorKind::BrokenPipe => "BrokenPipe",
        ErrorKind::ConnectionReset => "ConnectionReset",
        ErrorKind::ConnectionAborted => "ConnectionAborted",
        ErrorKind::InvalidInput => "InvalidInput",
        ErrorKind::StorageFull => "StorageFull",
        ErrorKind::Unsupported => "Unsupported",
        ErrorKind::OutOfMemory => "OutOfMemory",
        ErrorKind::NotConnected => "NotConnected",
        ErrorKind::AlreadyExists => "AlreadyExists",
        ErrorKind::QuotaExceeded => "QuotaExceeded",
        ErrorKind::FileTooLarge => "FileTooLarge",
        ErrorKind::ResourceBusy => "ResourceBusy",
        _ => "other-kind",
    }
}

#[derive(Clone, Copy, Debug)]
pub struct ReadFault {
    /// fires when the device is asked for the byte at this offset (== len: replaces the EOF indication)
    pub at: usize,
    pub kind: ErrorKind,
    pub sticky: bool,
}

/// Is the device's own error object still reachable from `e` — as its payload or further down the payload's source chain?
pub fn carries_injected(e: &io::Error) -> bool {
    let mut cur: Option<&(dyn std::error::Error + 'static)> = e.get_ref().map(|x| x as &(dyn std::error::Error + 'static));
    let mut depth = 0;
    while let Some(c) = cur {
        if c.is::<Injected>() {
            return true;
        }
        if let Some(io) = c.downcast_ref::<io::Error>() {
            if carries_injected(io) {
                return true;
            }
        }
        depth += 1;
        if depth > 32 {
            break;
        }
        cur = c.source();
    }
    false
}

/// Marker payload of injected errors, so a wrapper that preserves the kind but drops the payload is visible in statistics.
#[derive(Debug)]
pub struct Injected(pub u64);
impl std::fmt::Display for Injected {
    fn fmt(&self, f: &mut std::fmt::Formatter<'_>) -> std::fmt::Result {
        write!(f, "injected fault #{}", self.0)
    }
}
impl std::error::Error for Injected {}

#[derive(Default, Debug, Clone)]
pub struct ReadStats {
    pub device_calls: u64,
    pub polls: u64,
    pub bytes_delivered: u64,
    pub eintr_fired: u64,
    pub hard_fired: u64,
    pub first_chunk: Option<usize>,
    pub budget_exceeded: bool,
    /// offset at which the hard fault fired first
    pub fault_pos: Option<usize>,
    /// chunk boundaries (absolute offsets where one delivery ended and the next began)
    pub boundaries: Vec<usize>,
    pub polls_after_last_eintr: u64,
    pub overconsume: bool,
}

pub struct SimReader<'a> {
    data: &'a [u8],
    pos: usize,
    win: usize,
    sched: &'a [u32],
    cyclic: bool,
    tail: usize,
    si: usize,
    eintr: &'a [u32],
    ei: usize,
    fault: Option<ReadFault>,
    budget: u64,
    record_boundaries: bool,
    /// every Interrupted answer takes this long in real time (a slow device; 0 = immediate)
    pub eintr_sleep_ms: u64,
    pub st: ReadStats,
}

impl<'a> SimReader<'a> {
    /// `sched`: chunk sizes handed out in order; when exhausted either cycle (`tail == 0`) or continue with `tail`.
    pub fn new(data: &'a [u8], sched: &'a [u32], tail: usize, eintr: &'a [u32], fault: Option<ReadFault>) -> Self {
        let budget = 64 + 4 * data.len() as u64 + 4 * eintr.len() as u64;
        SimReader {
            data,
            pos: 0,
            win: 0,
            sched,
            cyclic: tail == 0,
            tail,
            si: 0,
            eintr,
            ei: 0,
            fault,
            budget,
            record_boundaries: false,
            eintr_sleep_ms: 0,
            st: ReadStats::default(),
        }
    }
    pub fn record_boundaries(mut self) -> Self {
        self.record_boundaries = true;
        self
    }
    pub fn consumed(&self) -> usize {
        self.pos
    }

    fn next_chunk(&mut self) -> usize {
        let n = if self.sched.is_empty() {
            if self.tail == 0 {
                usize::MAX
            } else {
                self.tail
            }
        } else if self.si < self.sched.len() {
            self.sched[self.si] as usize
        } else if self.cyclic {
            self.sched[self.si % self.sched.len()] as usize
        } else {
            self.tail
        };
        self.si += 1;
        n.max(1)
    }

    /// Ask the device for more. Ok(()) with win==0 means EOF.
    fn refill(&mut self) -> io::Result<()> {
        debug_assert_eq!(self.win, 0);
        let call = self.st.device_calls;
        self.st.device_calls += 1;
        if self.st.polls > self.budget {
            self.st.budget_exceeded = true;
            return Err(io::Error::new(ErrorKind::Other, "simulator: poll budget exceeded (livelock)"));
        }
        // Interrupted?
        while self.ei < self.eintr.len() && u64::from(self.eintr[self.ei]) < call {
            self.ei += 1;
        }
        if self.ei < self.eintr.len() && u64::from(self.eintr[self.ei]) == call {
            self.ei += 1;
            self.st.eintr_fired += 1;
            self.st.polls_after_last_eintr = 0;
            if self.eintr_sleep_ms > 0 {
                std::thread::sleep(std::time::Duration::from_millis(self.eintr_sleep_ms));
            }
            return Err(io::Error::from(ErrorKind::Interrupted));
        }
        if let Some(f) = self.fault {
            if self.pos >= f.at && (f.sticky || self.st.hard_fired == 0) {
                self.st.hard_fired += 1;
                if self.st.fault_pos.is_none() {
                    self.st.fault_pos = Some(self.pos);
                }
                return Err(io::Error::new(f.kind, Injected(self.st.hard_fired)));
            }
        }
        let mut n = self.next_chunk().min(self.data.len() - self.pos);
        if let Some(f) = self.fault {
            if self.pos < f.at {
                n = n.min(f.at - self.pos);
            }
        }
        if self.st.first_chunk.is_none() {
            self.st.first_chunk = Some(n);
        }
        if self.record_boundaries && n > 0 && self.pos > 0 {
            self.st.boundaries.push(self.pos);
        }
        self.win = n;
        self.st.bytes_delivered += n as u64;
        Ok(())
    }
}

impl Read for SimReader<'_> {
    fn read(&mut self, buf: &mut [u8]) -> io::Result<usize> {
        self.st.polls += 1;
        self.st.polls_after_last_eintr += 1;
        if buf.is_empty() {
            return Ok(0);
        }
        if self.win == 0 {
            self.refill()?;
        }
        let n = self.win.min(buf.len());
        buf[..n].copy_from_slice(&self.data[self.pos..self.pos + n]);
        self.pos += n;
        self.win -= n;
        Ok(n)
    }
}

impl BufRead for SimReader<'_> {
    fn fill_buf(&mut self) -> io::Result<&[u8]> {
        self.st.polls += 1;
        self.st.polls_after_last_eintr += 1;
        if self.win == 0 {
            self.refill()?;
        }
        Ok(&self.data[self.pos..self.pos + self.win])
    }
    fn consume(&mut self, amt: usize) {
        if amt > self.win {
            // a consumer bug; recorded and clamped so that the simulator itself never panics
            self.st.overconsume = true;
        }
        let amt = amt.min(self.win);
        self.pos += amt;
        self.win -= amt;
    }
}

// ------------------------------------------------------------------------------------------------ sink

#[derive(Clone, Copy, Debug, PartialEq)]
pub enum WriteFaultKind {
    Error(ErrorKind),
    Zero,
}

#[derive(Default, Debug)]
pub struct SinkState {
    pub data: Vec<u8>,
    pub calls: u64,
    pub flush_calls: u64,
    pub errors_raised: u64,
    pub zero_returned: u64,
    pub eintr_fired: u64,
    pub short_writes: u64,
    pub fault_fired_at: Option<usize>,
    pub budget_exceeded: bool,
    /// flush calls answered with Interrupted (not counted in errors_raised)
    pub flush_interrupted: u64,
    pub last_flush_failed: bool,
}

pub struct SimWriter {
    pub st: Rc<RefCell<SinkState>>,
    /// bytes accepted per call, cyclic; empty = everything offered
    pub accept: Vec<u32>,
    pub ai: usize,
    pub eintr: Vec<u32>,
    pub fault: Option<(usize, WriteFaultKind, bool)>, // (output offset, what, sticky)
    pub fired: u64,
    pub flush_err: Option<ErrorKind>,
    /// only the first flush call fails
    pub flush_once: bool,
    pub budget: u64,
}

impl SimWriter {
    pub fn new(accept: Vec<u32>, eintr: Vec<u32>, fault: Option<(usize, WriteFaultKind, bool)>, flush_err: Option<ErrorKind>, expect_len: usize) -> (SimWriter, Rc<RefCell<SinkState>>) {
        let st = Rc::new(RefCell::new(SinkState::default()));
        let budget = 256 + 4 * expect_len as u64 + 4 * eintr.len() as u64;
        (SimWriter { st: st.clone(), accept, ai: 0, eintr, fault, fired: 0, flush_err, flush_once: false, budget }, st)
    }
}

impl Write for SimWriter {
    fn write(&mut self, buf: &[u8]) -> io::Result<usize> {
        let mut st = self.st.borrow_mut();
        let call = st.calls;
        st.calls += 1;
        if st.calls > self.budget {
            st.budget_exceeded = true;
            st.errors_raised += 1;
            return Err(io::Error::new(ErrorKind::Other, "simulator: write budget exceeded (livelock)"));
        }
        if buf.is_empty() {
            return Ok(0);
        }
        if self.eintr.binary_search(&(call as u32)).is_ok() {
            st.eintr_fired += 1;
            return Err(io::Error::from(ErrorKind::Interrupted));
        }
        let mut n = buf.len();
        if !self.accept.is_empty() {
            let a = (self.accept[self.ai % self.accept.len()] as usize).max(1);
            self.ai += 1;
            if a < n {
                n = a;
                st.short_writes += 1;
            }
        }
        if let Some((at, what, sticky)) = self.fault {
            if st.data.len() >= at && (sticky || self.fired == 0) {
                self.fired += 1;
                if st.fault_fired_at.is_none() {
                    st.fault_fired_at = Some(st.data.len());
                }
                return match what {
                    WriteFaultKind::Error(k) => {
                        st.errors_raised += 1;
                        Err(io::Error::new(k, Injected(self.fired)))
                    }
                    WriteFaultKind::Zero => {
                        st.zero_returned += 1;
                        Ok(0)
                    }
                };
            }
            if st.data.len() < at {
                n = n.min(at - st.data.len());
            }
        }
        st.data.extend_from_slice(&buf[..n]);
        Ok(n)
    }
    fn flush(&mut self) -> io::Result<()> {
        let mut st = self.st.borrow_mut();
        st.flush_calls += 1;
        if st.flush_calls > 10_000 {
            st.budget_exceeded = true;
            st.errors_raised += 1;
            st.last_flush_failed = true;
            return Err(io::Error::new(ErrorKind::Other, "simulator: flush budget exceeded (livelock)"));
        }
        if let Some(k) = self.flush_err {
            if !self.flush_once || st.flush_calls == 1 {
                if k == ErrorKind::Interrupted {
                    st.flush_interrupted += 1;
                } else {
                    st.errors_raised += 1;
                }
                st.last_flush_failed = true;
                return Err(io::Error::new(k, Injected(1000 + st.flush_calls)));
            }
        }
        st.last_flush_failed = false;
        Ok(())
    }
}
