//! Transport planning (chunk schedules, Interrupted placement) and execution of a decode through the planned transport.
//! Shared by the I/O scenarios (C01, C05, C08, C09, C10).

use crate::engine::Stats;
use crate::plan::Plan;
use crate::probe::{decode_fp, from_bytes_fp, from_path_fp, from_str_fp, Dec, Fp};
use crate::rng::Rng;
use crate::simio::{kind_of, ReadFault, ReadStats, SimReader};
use std::io::{self, BufRead, BufReader, Cursor, ErrorKind, Read};
use std::sync::OnceLock;

// transport kinds (plan knob "t")
pub const T_SIM: i64 = 0; // SimReader used directly as the BufRead
pub const T_BUFREADER: i64 = 1; // SimReader as raw device under real std::io::BufReader::with_capacity(cap)
pub const T_SLICE: i64 = 2; // &[u8]
pub const T_CURSOR: i64 = 3; // Cursor<Vec<u8>>
pub const T_FROM_STR: i64 = 4; // rosu_map::from_str (falls back to from_bytes if not UTF-8)
pub const T_FROM_PATH: i64 = 5; // rosu_map::from_path over a real temp file
pub const T_CHAIN: i64 = 6; // std::io::Chain of two slices split at p["split"]
pub const T_BUFREADER_DEFAULT: i64 = 7; // BufReader::new(&[u8]) (8 KiB)
pub const T_FROM_BYTES: i64 = 8;
pub const T_FROM_PATH_SLOWPIPE: i64 = 10; // from_path over a pipe whose writer delivers the bytes in two parts, 120 ms apart (real OS, real time: affects only sensitivity, a correct from_path gives the same result however slowly the bytes arrive)
pub const T_FROM_PATH_PIPE: i64 = 9; // rosu_map::from_path over /proc/self/fd/<pipe> (a path whose metadata reports length 0)

pub fn transport_name(t: i64) -> &'static str {
    match t {
        T_SIM => "transport.simreader-direct",
        T_BUFREADER => "transport.simdevice-under-std-BufReader",
        T_SLICE => "transport.slice",
        T_CURSOR => "transport.cursor",
        T_FROM_STR => "transport.from_str",
        T_FROM_PATH => "transport.from_path-real-fs",
        T_CHAIN => "transport.chain-of-slices",
        T_BUFREADER_DEFAULT => "transport.std-BufReader-8k",
        T_FROM_PATH_PIPE => "transport.from_path-pipe-via-procfs",
        T_FROM_PATH_SLOWPIPE => "transport.from_path-slow-pipe-two-parts",
        _ => "transport.from_bytes",
    }
}

/// Offsets where a chunk boundary is interesting.
pub fn interesting_offsets(data: &[u8], max: usize) -> Vec<usize> {
    let mut v = vec![1, 2, 3];
    let (enc, skip) = crate::corpus::sniff(data);
    let le = enc == crate::corpus::Enc::Utf16Le;
    for (i, &b) in data.iter().enumerate() {
        if v.len() >= max {
            break;
        }
        match b {
            b'\n' => {
                v.push(i); // before LF (between CR and LF when CRLF)
                v.push(i + 1); // right after LF (for UTF-16LE: between LF and its 0x00)
                if le {
                    v.push(i + 2);
                }
            }
            b']' => v.push(i + 1),
            b'[' => v.push(i), // right before a bracket in the middle of a line
            0x80..=0xBF if i > skip => v.push(i), // inside a multi-byte UTF-8 sequence
            _ => {}
        }
        if matches!(enc, crate::corpus::Enc::Utf16Le | crate::corpus::Enc::Utf16Be) && matches!(b, 0x0A | 0x0D) && i >= skip {
            // inside / around a code unit one of whose bytes is a CR or LF byte (U+0Axx, U+xx0A, ...)
            v.push(i);
            v.push(i + 1);
            v.push((i - skip) / 2 * 2 + skip);
            v.push((i - skip) / 2 * 2 + skip + 2);
        }
    }
    v.retain(|&o| o > 0 && o < data.len());
    v.sort_unstable();
    v.dedup();
    v
}

/// Fill `plan.sched`, `tail`, `eintr`, `t`, `cap`, `split` from the PRNG.
pub fn plan_transport(rng: &mut Rng, plan: &mut Plan, sim_only: bool) {
    let len = plan.data.len();
    let t = if sim_only {
        if rng.chance(2, 3) {
            T_SIM
        } else {
            T_BUFREADER
        }
    } else {
        match rng.below(100) {
            0..=44 => T_SIM,
            45..=69 => T_BUFREADER,
            70..=74 => T_SLICE,
            75..=79 => T_CURSOR,
            80..=84 => T_FROM_STR,
            85 | 86 => T_FROM_PATH,
            87 => {
                if len <= 60_000 {
                    T_FROM_PATH_PIPE
                } else {
                    T_FROM_PATH
                }
            }
            88..=94 => T_CHAIN,
            _ => T_BUFREADER_DEFAULT,
        }
    };
    plan.set("t", t);
    if [T_FROM_STR, T_FROM_PATH, T_FROM_PATH_PIPE, T_SLICE].contains(&t) && rng.chance(1, 2) {
        // the full decoder's own entry points (Beatmap::from_bytes / str::parse / Beatmap::from_path) instead of the
        // generic functions; no effect for the section decoders
        plan.set("inherent", 1);
    }
    if t == T_CHAIN {
        plan.set("split", rng.below(len + 1) as i64);
    }
    if t == T_FROM_PATH && rng.chance(1, 2) {
        plan.set("decoy", 1 + rng.below(len.max(1)) as i64);
    }
    if t == T_FROM_PATH && rng.chance(1, 2) {
        // what the file is called and what lies next to it: other extensions, no extension, the osu! naming convention
        // inside a beatmap folder with a storyboard and another difficulty as neighbours
        plan.set("fname", 1 + rng.below(8) as i64);
    }
    if t == T_FROM_PATH && rng.chance(1, 4) {
        plan.set("locked", 1 + rng.below(2) as i64);
    }
    if t == T_BUFREADER {
        let cap = if rng.chance(3, 5) { 1 + rng.below(16) } else { rng.small(8192) };
        plan.set("cap", cap as i64);
    }
    if t != T_SIM && t != T_BUFREADER {
        return;
    }
    // chunk schedule
    match rng.below(10) {
        0..=3 => {
            plan.sched = vec![rng.small(64) as u32];
            plan.faults.push("R1-chunking-fixed".into());
        }
        4..=6 => {
            let n = 1 + rng.below(8);
            plan.sched = (0..n)
                .map(|_| {
                    let m = if rng.chance(1, 4) { 4096 } else { 16 };
                    rng.small(m) as u32
                })
                .collect();
            plan.faults.push("R1-chunking-variable".into());
        }
        7 | 8 => {
            // boundary-targeted: explicit chunk sizes that put boundaries at interesting offsets, rest in big chunks
            let offs = interesting_offsets(&plan.data, 4096);
            if !offs.is_empty() {
                let k = 1 + rng.below(6);
                let mut chosen: Vec<usize> = (0..k).map(|_| *rng.pick(&offs)).collect();
                chosen.sort_unstable();
                chosen.dedup();
                let mut prev = 0;
                for o in chosen {
                    plan.sched.push((o - prev) as u32);
                    prev = o;
                }
                plan.set("tail", *rng.pick(&[1i64, 2, 3, 7, 64, 8192]));
                plan.faults.push("R1-chunking-boundary-targeted".into());
            } else {
                plan.sched = vec![1];
            }
        }
        _ => {
            // one-shot device (whole file in one read)
        }
    }
    if rng.chance(1, 6) {
        // R2: first chunk shorter than a BOM
        plan.sched.insert(0, 1 + rng.below(2) as u32);
        if plan.get("tail") == 0 && plan.sched.len() == 1 {
            plan.set("tail", *rng.pick(&[1i64, 2, 5, 4096]));
        }
        plan.faults.push("R2-first-chunk-lt3".into());
    }
    // R3: Interrupted placements, bursts <= 3
    if rng.chance(2, 5) {
        let avg = plan.sched.iter().map(|&x| x as usize).sum::<usize>().max(1) / plan.sched.len().max(1);
        let est_calls = (len / avg.max(1)).min(2_000_000) + 8;
        let m = 1 + rng.below(5);
        let mut e = Vec::new();
        for _ in 0..m {
            let at = if rng.chance(1, 3) { rng.below(6) } else { rng.below(est_calls) } as u32;
            // bursts are finite; mostly <= 3, sometimes long (a correct retry loop has no retry budget)
            let burst = if rng.chance(1, 12) { *rng.pick(&[17u32, 33, 100]) } else { 1 + rng.below(3) as u32 };
            for b in 0..burst {
                e.push(at + b);
            }
        }
        e.sort_unstable();
        e.dedup();
        // bursts stay finite by construction (a finite list of call indexes); cap the total
        e.truncate(400);
        plan.eintr = e;
        plan.faults.push("R3-interrupted".into());
    }
}

pub fn read_fault_of(plan: &Plan) -> Option<ReadFault> {
    if !plan.has("fault_at") {
        return None;
    }
    Some(ReadFault { at: plan.get("fault_at").max(0) as usize, kind: kind_of(plan.get("fault_kind")), sticky: plan.get("fault_sticky") != 0 })
}

pub type Outcome = Result<Fp, ErrorKind>;

fn byte_class(b: u8) -> usize {
    match b {
        0 => 0,
        b'\n' => 1,
        b'\r' => 2,
        b' ' | b'\t' => 3,
        b'0'..=b'9' => 4,
        b'a'..=b'z' | b'A'..=b'Z' => 5,
        b',' => 6,
        b'|' | b':' => 7,
        b'[' | b']' => 8,
        0x80..=0xBF => 11,
        0xFE | 0xFF => 12,
        0xC0..=0xFD => 10,
        _ => 9,
    }
}
fn bsig_name(a: usize, b: usize) -> &'static str {
    static T: OnceLock<Vec<&'static str>> = OnceLock::new();
    T.get_or_init(|| (0..169).map(|i| &*Box::leak(format!("bsig.{:02}-{:02}", i / 13, i % 13).into_boxed_str())).collect())[a * 13 + b]
}

/// Record reach probes for a finished read.
pub fn note_read_stats(st: &mut Stats, data: &[u8], rs: &ReadStats) {
    st.add("steps.reader_polls", rs.polls);
    st.add("steps.device_calls", rs.device_calls);
    st.add("steps.bytes_delivered", rs.bytes_delivered);
    st.add("fired.R3-interrupted", rs.eintr_fired);
    st.add("fired.R4-hard-read-error", rs.hard_fired);
    if rs.boundaries.len() > 0 {
        st.inc("fired.R1-chunking(runs-with>=2-chunks)");
    }
    if matches!(rs.first_chunk, Some(1 | 2)) && data.len() >= 3 {
        st.inc("fired.R2-first-chunk-lt3");
    }
    let (enc, skip) = crate::corpus::sniff(data);
    for &b in rs.boundaries.iter().take(512) {
        if b == 0 || b >= data.len() {
            continue;
        }
        let (p, n) = (data[b - 1], data[b]);
        st.inc(bsig_name(byte_class(p), byte_class(n)));
        if b < skip {
            st.inc("probe.boundary-inside-BOM");
        }
        if p == b'\r' && n == b'\n' {
            st.inc("probe.boundary-between-CR-and-LF");
        }
        if enc == crate::corpus::Enc::Utf16Le && p == b'\n' && n == 0 && (b - skip) % 2 == 1 {
            st.inc("probe.boundary-between-LE-LF-and-its-00");
        }
        if matches!(enc, crate::corpus::Enc::Utf8 | crate::corpus::Enc::Utf8Bom) && (0x80..=0xBF).contains(&n) && b >= skip {
            st.inc("probe.boundary-inside-utf8-sequence");
        }
        if p == b'\n' {
            st.inc("probe.boundary-right-after-LF");
        }
    }
}

pub struct Via {
    pub out: Outcome,
    pub rs: Option<ReadStats>,
    pub err_is_injected: bool,
}

/// Decode `plan.data` with `dec` through the planned transport.
pub fn decode_via(plan: &Plan, dec: Dec, st: &mut Stats) -> Via {
    struct Reset;
    impl Drop for Reset {
        fn drop(&mut self) {
            crate::probe::INHERENT.with(|i| i.set(false));
        }
    }
    let _reset = Reset;
    if plan.get("inherent") != 0 && dec == Dec::Beatmap {
        crate::probe::INHERENT.with(|i| i.set(true));
        st.inc("transport.entry-points-of-Beatmap-itself");
    }
    decode_via_inner(plan, dec, st)
}

fn decode_via_inner(plan: &Plan, dec: Dec, st: &mut Stats) -> Via {
    let data = &plan.data[..];
    let t = plan.get("t");
    st.inc(transport_name(t));
    let fault = read_fault_of(plan);
    let tail = plan.get("tail").max(0) as usize;
    let conv = |r: io::Result<Fp>| -> (Outcome, bool) {
        match r {
            Ok(f) => (Ok(f), false),
            Err(e) => {
                (Err(e.kind()), crate::simio::carries_injected(&e))
            }
        }
    };
    match t {
        T_SIM => {
            let mut r = SimReader::new(data, &plan.sched, tail, &plan.eintr, fault).record_boundaries();
            r.eintr_sleep_ms = plan.get("eintr_sleep_ms").clamp(0, 50) as u64;
            let (out, inj) = conv(decode_fp(dec, &mut r));
            note_read_stats(st, data, &r.st);
            Via { out, rs: Some(r.st), err_is_injected: inj }
        }
        T_BUFREADER => {
            let cap = plan.get_or("cap", 8).max(1) as usize;
            st.inc("fired.R6-std-BufReader-composition");
            let mut dev = SimReader::new(data, &plan.sched, tail, &plan.eintr, fault).record_boundaries();
            let (out, inj) = {
                let br = BufReader::with_capacity(cap, DevRef(&mut dev));
                conv(decode_fp(dec, br))
            };
            note_read_stats(st, data, &dev.st);
            Via { out, rs: Some(dev.st), err_is_injected: inj }
        }
        T_SLICE if plan.get("inherent") != 0 => Via { out: conv(from_bytes_fp(dec, data)).0, rs: None, err_is_injected: false },
        T_SLICE => Via { out: conv(decode_fp(dec, data)).0, rs: None, err_is_injected: false },
        T_CURSOR => Via { out: conv(decode_fp(dec, Cursor::new(data.to_vec()))).0, rs: None, err_is_injected: false },
        T_FROM_STR => match std::str::from_utf8(data) {
            Ok(s) => Via { out: conv(from_str_fp(dec, s)).0, rs: None, err_is_injected: false },
            Err(_) => Via { out: conv(from_bytes_fp(dec, data)).0, rs: None, err_is_injected: false },
        },
        T_FROM_PATH => {
            let dir = tmp_dir();
            let _ = std::fs::create_dir_all(&dir);
            let fname = plan.get("fname");
            let stem = format!("{:?}-{}", std::thread::current().id(), plan.idx);
            let mut folder: Option<std::path::PathBuf> = None;
            let path = match fname {
                1 => dir.join(format!("{stem}.osb")),
                2 => dir.join(format!("{stem}.OSB")),
                3 => dir.join(format!("{stem}.txt")),
                4 => dir.join(stem.replace(['(', ')'], "")),
                5 => dir.join(format!("{stem} [x].osu")),
                8 => {
                    // a name that is not valid UTF-8 (a legacy code page): still a path
                    use std::os::unix::ffi::OsStrExt as _;
                    let mut b = stem.clone().into_bytes();
                    b.extend_from_slice(b"-\x83\x65\x83\x58\x83\x67\xff.osu");
                    dir.join(std::ffi::OsStr::from_bytes(&b))
                }
                6 | 7 => {
                    // a beatmap folder: "<Artist> - <Title> (<Creator>) [<Version>].osu" next to "<Artist> - <Title>
                    // (<Creator>).osb" (a storyboard with its own background and break), another difficulty and an audio file
                    let md = rosu_map::from_bytes::<rosu_map::section::metadata::Metadata>(data).unwrap_or_default();
                    let clean = |s: &str, d: &str| -> String {
                        let t: String = s.chars().filter(|c| c.is_ascii_alphanumeric() || *c == ' ').take(24).collect();
                        let t = t.trim().to_string();
                        if t.is_empty() { d.to_string() } else { t }
                    };
                    let base = format!("{} - {} ({})", clean(&md.artist, "a"), clean(&md.title, "t"), clean(&md.creator, "c"));
                    let f = dir.join(format!("folder-{stem}"));
                    let _ = std::fs::create_dir_all(&f);
                    let _ = std::fs::write(f.join(format!("{base}.osb")), "[Events]\n0,0,\"neighbour-bg.png\",0,0\n2,111,222\nVideo,0,\"neighbour.mp4\"\n");
                    let _ = std::fs::write(f.join(format!("{base} [other].osu")), "osu file format v14\n[Metadata]\nTitle:other difficulty\n[Events]\n0,0,\"other-bg.png\",0,0\n");
                    let _ = std::fs::write(f.join("audio.mp3"), "");
                    let p = f.join(format!("{base} [{}].osu", clean(&md.version, "v")));
                    folder = Some(f);
                    st.inc("realfs.beatmap-folder-with-neighbours");
                    p
                }
                _ => dir.join(format!("{stem}.osu")),
            };
            // history on the real file system: the same path first holds *other* bytes of the same length and the same
            // modification time and is decoded once; the result for the real content must not depend on that
            if !data.is_empty() && plan.get("decoy") != 0 {
                let mut decoy = data.to_vec();
                let at = (plan.get("decoy").unsigned_abs() as usize) % decoy.len();
                decoy[at] = if decoy[at] == b'9' { b'8' } else { b'9' };
                let stamp = std::time::SystemTime::UNIX_EPOCH + std::time::Duration::from_secs(1_700_000_000);
                if std::fs::write(&path, &decoy).is_ok() {
                    if let Ok(f) = std::fs::File::options().write(true).open(&path) {
                        let _ = f.set_modified(stamp);
                    }
                    let _ = from_path_fp(dec, &path);
                    st.inc("realfs.same-path-decoy-decoded-first");
                }
                if std::fs::write(&path, data).is_ok() {
                    if let Ok(f) = std::fs::File::options().write(true).open(&path) {
                        let _ = f.set_modified(stamp);
                    }
                }
            }
            let out = match if plan.get("decoy") != 0 && !data.is_empty() { Ok(()) } else { std::fs::write(&path, data) } {
                Ok(()) => {
                    // someone else may have the file open, and may hold an advisory lock on it (an editor, a sync tool):
                    // reading it is still reading it
                    let holder = if plan.get("locked") != 0 { std::fs::File::options().read(true).write(true).open(&path).ok() } else { None };
                    if let Some(h) = &holder {
                        if plan.get("locked") == 1 { let _ = h.lock(); } else { let _ = h.lock_shared(); }
                        st.inc("realfs.file-locked-by-another-handle");
                    }
                    let r = conv(from_path_fp(dec, &path)).0;
                    if let Some(h) = holder {
                        let _ = h.unlock();
                    }
                    r
                }
                Err(_) => {
                    // the real file system failed us: not a verdict about rosu-map; fall back to from_bytes
                    st.inc("realfs.tempfile-write-failed");
                    conv(from_bytes_fp(dec, data)).0
                }
            };
            let _ = std::fs::remove_file(&path);
            if let Some(f) = folder {
                let _ = std::fs::remove_dir_all(f);
            }
            Via { out, rs: None, err_is_injected: false }
        }
        T_FROM_PATH_PIPE => {
            // a non-regular "file": the bytes sit in a kernel pipe (<= 60 KB, so writing never blocks) and are opened
            // by path through procfs. Real OS; falls back to from_bytes where procfs or pipes are unavailable.
            use std::io::Write as _;
            use std::os::fd::AsRawFd;
            let out = match std::io::pipe() {
                Ok((rd, mut wr)) if data.len() <= 60_000 => {
                    let ok = wr.write_all(data).is_ok();
                    drop(wr);
                    let path = format!("/proc/self/fd/{}", rd.as_raw_fd());
                    if ok && std::path::Path::new(&path).exists() {
                        let r = conv(from_path_fp(dec, std::path::Path::new(&path))).0;
                        drop(rd);
                        r
                    } else {
                        st.inc("realfs.pipe-unavailable");
                        conv(from_bytes_fp(dec, data)).0
                    }
                }
                _ => {
                    st.inc("realfs.pipe-unavailable");
                    conv(from_bytes_fp(dec, data)).0
                }
            };
            Via { out, rs: None, err_is_injected: false }
        }
        T_FROM_PATH_SLOWPIPE => {
            use std::io::Write as _;
            use std::os::fd::AsRawFd;
            let out = match std::io::pipe() {
                Ok((rd, mut wr)) => {
                    let path = format!("/proc/self/fd/{}", rd.as_raw_fd());
                    if std::path::Path::new(&path).exists() {
                        let sp = (plan.get("split").max(0) as usize).min(data.len());
                        let (a, b) = (data[..sp].to_vec(), data[sp..].to_vec());
                        let h = std::thread::spawn(move || {
                            let _ = wr.write_all(&a);
                            let _ = wr.flush();
                            std::thread::sleep(std::time::Duration::from_millis(120));
                            let _ = wr.write_all(&b);
                            drop(wr);
                        });
                        let r = conv(from_path_fp(dec, std::path::Path::new(&path))).0;
                        drop(rd);
                        let _ = h.join();
                        r
                    } else {
                        st.inc("realfs.pipe-unavailable");
                        conv(from_bytes_fp(dec, data)).0
                    }
                }
                _ => {
                    st.inc("realfs.pipe-unavailable");
                    conv(from_bytes_fp(dec, data)).0
                }
            };
            Via { out, rs: None, err_is_injected: false }
        }
        T_CHAIN => {
            let sp = (plan.get("split").max(0) as usize).min(data.len());
            let r = (&data[..sp]).chain(&data[sp..]);
            Via { out: conv(decode_fp(dec, r)).0, rs: None, err_is_injected: false }
        }
        T_BUFREADER_DEFAULT => Via { out: conv(decode_fp(dec, BufReader::new(data))).0, rs: None, err_is_injected: false },
        _ => Via { out: conv(from_bytes_fp(dec, data)).0, rs: None, err_is_injected: false },
    }
}

/// `&mut SimReader` as a plain `Read` device (hides its BufRead side from BufReader).
pub struct DevRef<'a, 'b>(pub &'a mut SimReader<'b>);
impl Read for DevRef<'_, '_> {
    fn read(&mut self, buf: &mut [u8]) -> io::Result<usize> {
        self.0.read(buf)
    }
}

/// Scratch directory for the real-file-system probes: under the simulator's own target directory, per process.
pub fn tmp_dir() -> std::path::PathBuf {
    std::path::PathBuf::from(crate::engine::verif_dir()).join("sim/target").join(format!("tmp-{}", std::process::id()))
}

pub fn cleanup_tmp() {
    let _ = std::fs::remove_dir_all(tmp_dir());
}

/// helper for BufRead generic bound
pub fn _assert_bufread<R: BufRead>(_: &R) {}
