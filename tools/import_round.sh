#!/bin/sh
# Verify and import a round of sub-agent changes, then measure detection BEFORE anybody tunes the checks to them.
# usage: tools/import_round.sh <worktree-prefix e.g. /tmp/mut3-> <tag e.g. r3> <changes-per-property>
pre=$1; tag=$2; cnt=${3:-4}
VERIF=/verif
verify() { # $1 = property id
  id=$1; d=$pre$id; cd $d || return
  for n in $(seq 1 $cnt); do
    o=$d/out/$n; [ -f $o/patch.diff ] || { echo "$id-$n: no patch"; continue; }
    git checkout -q -- . ; rm -f tests/demo.rs
    git apply --check $o/patch.diff 2>/dev/null || { echo "$id-$n: PATCH-DOES-NOT-APPLY"; continue; }
    cp $o/demo.rs tests/demo.rs
    if cargo test --offline --test demo >/dev/null 2>&1; then a=pass; else a=FAIL; fi
    rm -f tests/demo.rs
    git apply $o/patch.diff
    if cargo test --offline --workspace --no-fail-fast >$o/suite.log 2>&1; then b=pass; else b=FAIL; fi
    cp $o/demo.rs tests/demo.rs
    if cargo test --offline --test demo >/dev/null 2>&1; then c=PASSES; else c=fails; fi
    rm -f tests/demo.rs; git checkout -q -- .
    echo "$id-$n: a=$a b=$b c=$c"
  done
}
for id in ${IDS:-C01 C05 C06 C08 C09 C10 C12 C13 C18 C20}; do [ -d $pre$id/out ] && verify $id > /tmp/imp-$tag-$id.out 2>&1 & done; wait
rm -f /tmp/imp-$tag-all.out; for id in ${IDS:-C01 C05 C06 C08 C09 C10 C12 C13 C18 C20}; do cat /tmp/imp-$tag-$id.out 2>/dev/null; done | tee /tmp/imp-$tag-all.out
python3 - "$pre" "$tag" <<'PY'
import json, os, shutil, sys, re
pre, tag = sys.argv[1], sys.argv[2]
ok = {}
for l in open(f"/tmp/imp-{tag}-all.out"):
    m = re.match(r"(C\d+)-(\d+): a=pass b=pass c=fails", l)
    if m: ok[(m.group(1), int(m.group(2)))] = True
idx = open('/verif/selftest/INDEX.tsv', 'a')
for (pid, n) in sorted(ok):
    src = f"{pre}{pid}/out/{n}"; dst = f"/verif/seeded/{pid}-{tag}-{n}"
    os.makedirs(dst, exist_ok=True)
    shutil.copy(f"{src}/patch.diff", f"{dst}/patch.diff"); shutil.copy(f"{src}/demo.rs", f"{dst}/demo.rs")
    m = json.load(open(f"{src}/meta.json"))
    m["origin"] = f"independent sub-agent given only the property text, the summaries of earlier rounds' changes to avoid, and a scratch worktree (round {tag})"
    m["verified_by_me"] = {"how": "tools/import_round.sh in the scratch worktree: (a) demo.rs as tests/demo.rs passes on clean HEAD; (b) with patch.diff applied `cargo test --offline --workspace --no-fail-fast` passes all pre-existing tests; (c) with the patch the demo fails", "result": "a=pass b=pass c=fails"}
    json.dump(m, open(f"{dst}/meta.json", "w"), indent=1)
    idx.write(f"seeded/{pid}-{tag}-{n}/patch.diff\t{pid}\t{m['summary'][:140]}\n")
idx.close()
print("imported", len(ok))
PY
cd $VERIF && ./check selftest ${SELF_FILTER:--$tag-} 2>&1 | grep -E "^CAUGHT|^MISSED|^ERROR|^ +[0-9]+ " | cut -c1-170 | tee $VERIF/selftest/round-$tag-first-contact.txt
