#!/bin/sh
# Prepare scratch worktrees for a seeded-change round: tools/setup_round.sh <n>   ->  /tmp/mut<n>-<ID>/ with PROPERTY.txt
# (the property text, its anchors and the one-line summaries of earlier seeded changes — nothing about the checks).
n="$1"; [ -n "$n" ] || exit 2
IDS="${IDS:-C01 C05 C06 C08 C09 C10 C12 C13 C18 C20}"
cd /repo || exit 2
for id in $IDS; do git worktree add -q /tmp/mut$n-$id HEAD || exit 2; done
IDS="$IDS" N="$n" python3 - <<'PY'
import json,glob,os
ids=os.environ["IDS"].split(); n=os.environ["N"]
for l in open('/verif/properties.jsonl'):
    p=json.loads(l)
    pid=p['id']
    if pid in ids:
        prev=[json.load(open(f))["summary"] for f in sorted(glob.glob(f"/verif/seeded/{pid}-*/meta.json"))]
        t=f"""PROPERTY {p['id']}: {p['title']}

Statement: {p['statement']}

Quantified over: {', '.join(p['quantifier']['over'])} — {p['quantifier']['text']}

Why the existing tests cannot settle it: {p['why_tests_cant']}

Code anchors: files {', '.join(p['anchors']['files'])}
Mechanisms meant to make it hold:
""" + "\n".join(f"  - {m['name']} ({m['where']})" for m in p['anchors']['mechanism'])
        t+="\n\nChanges ALREADY produced in earlier rounds (do NOT repeat these or close variants of them):\n"+"\n".join(f"  * {x[:200]}" for x in prev)
        open(f"/tmp/mut{n}-{pid}/PROPERTY.txt",'w').write(t)
PY
echo ok
