#!/bin/sh
# Reach report: which source lines of rosu-map do the simulated runs execute? (auxiliary; not a check)
# Builds the simulator with -C instrument-coverage on the nightly toolchain (it ships llvm-profdata / llvm-cov), runs every
# claimed property's quick tier, merges the profiles and prints per-file line coverage of /repo/src plus the uncovered lines.
# usage: tools/coverage.sh [ids…]      output: coverage/summary.txt, coverage/uncovered.txt
cd "$(dirname "$0")/.." || exit 2
VERIF_DIR="$(pwd)"; export VERIF_DIR
ids="${*:-C01 C05 C06 C08 C09 C10 C12 C13 C18 C20}"
BIN="$HOME/.rustup/toolchains/nightly-x86_64-unknown-linux-gnu/lib/rustlib/x86_64-unknown-linux-gnu/bin"
[ -x "$BIN/llvm-cov" ] || { echo "llvm-cov not found under the nightly toolchain"; exit 2; }
T="$VERIF_DIR/sim/target/cov"; P="$T/prof"; rm -rf "$P"; mkdir -p "$P" coverage
RUSTFLAGS="-C instrument-coverage" cargo +nightly build --release --offline --manifest-path sim/Cargo.toml --target-dir "$T" >"$T.build.log" 2>&1 || { tail -20 "$T.build.log"; exit 2; }
for id in $ids; do
    LLVM_PROFILE_FILE="$P/$id-%p-%m.profraw" VERIF_THREADS=16 "$T/release/rosu-sim" check "$id" quick | tail -1 | cut -c1-120
done
"$BIN/llvm-profdata" merge -sparse "$P"/*.profraw -o "$T/all.profdata" || exit 2
"$BIN/llvm-cov" report "$T/release/rosu-sim" -instr-profile="$T/all.profdata" --ignore-filename-regex='(sim/src|/rustc/|\.cargo)' > coverage/summary.txt
"$BIN/llvm-cov" show "$T/release/rosu-sim" -instr-profile="$T/all.profdata" --ignore-filename-regex='(sim/src|/rustc/|\.cargo)' --show-line-counts-or-regions 2>/dev/null \
  | awk '/^\/.*:$/ {file=$0} /^ +[0-9]+\| +0\|/ {print file " " $0}' > coverage/uncovered.txt
cat coverage/summary.txt | cut -c1-200
echo "uncovered lines: $(wc -l < coverage/uncovered.txt) (coverage/uncovered.txt)"
rm -rf "$P"
