#!/bin/sh
# Sensitivity proof (DESIGN.md §7): every patch listed in selftest/INDEX.tsv breaks one property while still
# compiling and passing the 68 tests. Each is applied to a scratch copy of /repo (outside /repo and /verif), the
# simulator is rebuilt against that copy, the listed property's quick check must exit 1 with a replay that
# reproduces; the scratch copy and its build output are removed afterwards. /repo itself is never touched.
#   ./check selftest                 all entries
#   ./check selftest <substring>…    entries whose patch path contains one of the substrings
#   SELFTEST_TIER=thorough           use the thorough tier
#   SELFTEST_BASELINE=1              also run every claimed property on the unpatched copy (expect exit 0)
VERIF_DIR="${VERIF_DIR:-$(cd "$(dirname "$0")" && pwd)}"
REPO="${VERIF_REPO:-/repo}"
TIER="${SELFTEST_TIER:-quick}"
S="$(mktemp -d /tmp/rosu-selftest.XXXXXX)" || exit 2
trap 'rm -rf "$S"' EXIT INT TERM
export CARGO_NET_OFFLINE=true
# shorter watchdog in the selftest (a hang mutant otherwise costs 2 x 300 s); affects only how long a hang takes to report
export VERIF_HANG_MS="${VERIF_HANG_MS:-30000}"
mkdir -p "$S/out"
cp "$VERIF_DIR/known_findings.json" "$S/out/" 2>/dev/null

prepare() { # $1 = patch file or "" for baseline
    rm -rf "$S/repo" "$S/sim"
    mkdir -p "$S/repo" "$S/sim"
    rsync -a --exclude target --exclude .git "$REPO/" "$S/repo/" || return 2
    if [ -n "$1" ]; then
        (cd "$S/repo" && git apply --whitespace=nowarn "$1") || { echo "SELFTEST-ERROR: patch $1 does not apply"; return 2; }
    fi
    rsync -a --exclude target "$VERIF_DIR/sim/" "$S/sim/" || return 2
    sed -i "s#path = \"/repo\"#path = \"$S/repo\"#" "$S/sim/Cargo.toml"
    if ! cargo build --release --offline --manifest-path "$S/sim/Cargo.toml" --target-dir "$S/target" >"$S/build.log" 2>&1; then
        tail -30 "$S/build.log"; echo "SELFTEST-ERROR: build failed for $1"; return 2
    fi
    return 0
}

run_check() { # $1 = property
    rm -rf "$S/out/replays" 2>/dev/null
    # the patched library is untrusted code: run it as an unprivileged user when we are root (a seeded change once
    # unlinked /dev/full through a real-OS probe)
    if [ "$(id -u)" = 0 ] && command -v setpriv >/dev/null 2>&1; then
        chmod -R a+rwX "$S" 2>/dev/null
        VERIF_REPO="$S/repo" VERIF_DIR="$S/out" setpriv --reuid=65534 --regid=65534 --clear-groups "$S/target/release/rosu-sim" check "$1" "$TIER" >"$S/run.log" 2>&1
    else
        VERIF_REPO="$S/repo" VERIF_DIR="$S/out" "$S/target/release/rosu-sim" check "$1" "$TIER" >"$S/run.log" 2>&1
    fi
}

total=0; caught=0; missed=0; errors=0
summary="$S/summary.txt"; : >"$summary"

if [ "${SELFTEST_BASELINE:-0}" = 1 ]; then
    prepare "" || exit 2
    for id in C01 C05 C06 C08 C09 C10 C12 C13 C18 C20; do
        run_check "$id"; rc=$?
        if [ $rc -eq 0 ]; then echo "baseline $id: silent (ok)"; else echo "baseline $id: exit $rc (ALARM ON UNCHANGED TREE)"; tail -5 "$S/run.log"; errors=$((errors+1)); fi
    done
fi

grep -v "^#" "${SELFTEST_INDEX:-$VERIF_DIR/selftest/INDEX.tsv}" | while IFS="$(printf '\t')" read -r patch props note; do
    [ -z "$patch" ] && continue
    if [ $# -gt 0 ]; then
        hit=0; for f in "$@"; do case "$patch" in *"$f"*) hit=1;; esac; done
        [ $hit -eq 0 ] && continue
    fi
    if ! prepare "$VERIF_DIR/$patch"; then echo "ERROR	$patch" >>"$summary"; continue; fi
    for id in $(echo "$props" | tr ',' ' '); do
        run_check "$id"; rc=$?
        if [ $rc -eq 0 ] && [ "$id" = C01 ]; then
            # C01's registered command also runs the same plans on a build with rosu-map's tracing feature (see ./check)
            if cargo build --release --offline --features tracing --manifest-path "$S/sim/Cargo.toml" --target-dir "$S/target-tracing" >"$S/build2.log" 2>&1; then
                if [ "$(id -u)" = 0 ] && command -v setpriv >/dev/null 2>&1; then
                    chmod -R a+rwX "$S" 2>/dev/null
                    VERIF_REPO="$S/repo" VERIF_DIR="$S/out" setpriv --reuid=65534 --regid=65534 --clear-groups "$S/target-tracing/release/rosu-sim" check "$id" "$TIER" >"$S/run.log" 2>&1; rc=$?
                else
                    VERIF_REPO="$S/repo" VERIF_DIR="$S/out" "$S/target-tracing/release/rosu-sim" check "$id" "$TIER" >"$S/run.log" 2>&1; rc=$?
                fi
            fi
            rm -rf "$S/target-tracing"
        fi
        if [ $rc -eq 1 ] && grep -q "^VIOLATION property=$id " "$S/run.log"; then
            cls=$(grep -m1 '  class=' "$S/run.log" | sed 's/^ *//' | cut -c1-110)
            echo "CAUGHT	$patch	$id	$cls" | tee -a "$summary"
        else
            echo "MISSED	$patch	$id	exit=$rc" | tee -a "$summary"
            tail -3 "$S/run.log" | cut -c1-300
        fi
    done
done
echo "---- selftest summary ($TIER tier)"
sort "$summary" | cut -f1 | uniq -c
cp "$summary" "$VERIF_DIR/selftest/last-summary.txt" 2>/dev/null
if grep -q '^MISSED\|^ERROR' "$summary"; then exit 1; fi
exit 0
