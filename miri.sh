#!/bin/sh
# Re-execute a sample of C01 plans under Miri (UB check of the three unsafe blocks on every executed path).
# usage: miri.sh <n-plans> ; prints MIRI-SUMMARY plans=<n> ub=<k> violations=<k> wall_s=<s>; exit 0 clean / 1 finding / 2 harness error
VERIF_DIR="${VERIF_DIR:-$(cd "$(dirname "$0")" && pwd)}"
N="${1:-320}"
PK="$VERIF_DIR/sim/target/miripack"
rm -rf "$PK"; mkdir -p "$PK" "$VERIF_DIR/replays"
t0=$(date +%s)
"$VERIF_DIR/sim/target/release/rosu-sim" miri-pack "$N" "$PK" 16 || exit 2
cd "$VERIF_DIR/sim" || exit 2
export MIRIFLAGS="-Zmiri-disable-isolation"
# first pack alone (builds the Miri sysroot and the crate once), the rest in parallel
first=1
for f in "$PK"/pack-*.json; do
    if [ $first -eq 1 ]; then
        cargo +nightly miri run --offline --target-dir "$VERIF_DIR/sim/target/miri" -- miri-exec "$f" >"$f.log" 2>&1
        first=0
        if ! grep -q "MIRI-EXEC-DONE\|Undefined Behavior" "$f.log"; then tail -20 "$f.log"; echo "HARNESS-ERROR: Miri could not run"; exit 2; fi
    else
        cargo +nightly miri run --offline --target-dir "$VERIF_DIR/sim/target/miri" -- miri-exec "$f" >"$f.log" 2>&1 &
    fi
done
wait
plans=0; ub=0; viol=0
for f in "$PK"/pack-*.json; do
    p=$(grep -c "^MIRI-RUN" "$f.log"); plans=$((plans+p))
    if grep -q "Undefined Behavior\|error: memory leaked\|unsupported operation" "$f.log"; then
        ub=$((ub+1))
        idx=$(grep "^MIRI-RUN" "$f.log" | tail -1 | sed 's/.*idx=\([0-9]*\).*/\1/')
        cp "$f" "$VERIF_DIR/replays/C01-miri-pack-$idx.json"; cp "$f.log" "$VERIF_DIR/replays/C01-miri-pack-$idx.log"
        echo "VIOLATION property=C01 replay=$VERIF_DIR/replays/C01-miri-pack-$idx.json"
        echo "  class=C01/undefined-behaviour: Miri reported UB while executing plan idx=$idx of this pack (re-run: cd sim && MIRIFLAGS=-Zmiri-disable-isolation cargo +nightly miri run --offline -- miri-exec <pack>)"
        grep -A 12 "Undefined Behavior" "$f.log" | head -20 | sed 's/^/  /'
    elif grep -q "^MIRI-VIOLATION" "$f.log"; then
        viol=$((viol+1)); grep "^MIRI-VIOLATION" "$f.log" | head -3
    elif ! grep -q "MIRI-EXEC-DONE" "$f.log"; then
        tail -5 "$f.log"; echo "HARNESS-ERROR: a Miri pack did not finish"; exit 2
    fi
done
t1=$(date +%s)
echo "MIRI-SUMMARY plans=$plans ub=$ub violations=$((ub+viol)) wall_s=$((t1-t0))"
[ $((ub+viol)) -eq 0 ] || exit 1
exit 0
